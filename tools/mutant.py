#!/usr/bin/env python3
"""usage: tools/mutant.py <patch.diff> <Cnn> [<Cnn>...]   (or 'all')
Applies the patch to /repo's working tree, runs the quick checks, prints their exit codes and the
VIOLATION lines, and restores /repo (git checkout -- .). Never commits anything."""
import json
import os
import subprocess
import sys

HERE = os.path.dirname(os.path.dirname(os.path.abspath(__file__)))
patch = os.path.abspath(sys.argv[1])
props = sys.argv[2:]
if props == ["all"]:
    props = [c["property_id"] for c in json.load(open(os.path.join(HERE, "MANIFEST.json")))["checks"]]
st = subprocess.run(["git", "-C", "/repo", "status", "--porcelain", "--untracked-files=no"], stdout=subprocess.PIPE, text=True).stdout.strip()
if st:
    print("refusing: /repo working tree is not clean:\n" + st)
    sys.exit(3)
r = subprocess.run(["git", "-C", "/repo", "apply", patch])
if r.returncode != 0:
    print("patch does not apply")
    sys.exit(3)
res = {}
try:
    for p in props:
        out = subprocess.run([os.path.join(HERE, "check"), p], stdout=subprocess.PIPE, stderr=subprocess.STDOUT, text=True, cwd=HERE)
        res[p] = out.returncode
        lines = [l for l in out.stdout.splitlines() if l.startswith(("VIOLATION", "ANALYSIS-BROKEN", "  at ", "  rule"))]
        print("%s -> exit %d" % (p, out.returncode))
        for l in lines[:9]:
            print("   " + l)
finally:
    subprocess.run(["git", "-C", "/repo", "checkout", "--", "."])
fired = [p for p, rc in res.items() if rc == 1]
broken = [p for p, rc in res.items() if rc == 2]
print("FIRED: %s   BROKEN: %s" % (" ".join(fired) or "-", " ".join(broken) or "-"))
