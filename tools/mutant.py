#!/usr/bin/env python3
"""usage: tools/mutant.py [--tier thorough] [--in-place] <patch.diff> <Cnn> [<Cnn>...]   (or 'all')
Default: copies /repo's working tree (sources only) to a scratch directory under /tmp, applies the
patch there and runs the checks against the copy (DSA_REPO), writing evidence to out/mut_evidence so
that /verif/evidence is untouched; the copy is removed afterwards.
--in-place: the protocol of the brief: git -C /repo apply, run the checks, git -C /repo checkout -- .
Never commits anything."""
import json
import os
import shutil
import subprocess
import sys
import tempfile
from concurrent.futures import ThreadPoolExecutor

HERE = os.path.dirname(os.path.dirname(os.path.abspath(__file__)))
args = sys.argv[1:]
tier = "quick"
inplace = False
jobs = 4
while args and args[0].startswith("--"):
    if args[0] == "--tier":
        tier = args[1]
        args = args[2:]
    elif args[0] == "--jobs":
        jobs = int(args[1])
        args = args[2:]
    elif args[0] == "--in-place":
        inplace = True
        args = args[1:]
    else:
        sys.exit("unknown option " + args[0])
patch = os.path.abspath(args[0])
props = args[1:]
if props == ["all"]:
    props = [c["property_id"] for c in json.load(open(os.path.join(HERE, "MANIFEST.json")))["checks"]]
env = dict(os.environ)
scratch = None
if inplace:
    st = subprocess.run(["git", "-C", "/repo", "status", "--porcelain", "--untracked-files=no"], stdout=subprocess.PIPE, text=True).stdout.strip()
    if st:
        print("refusing: /repo working tree is not clean:\n" + st)
        sys.exit(3)
    r = subprocess.run(["git", "-C", "/repo", "apply", patch])
else:
    scratch = tempfile.mkdtemp(prefix="dsa_mut_", dir="/tmp")
    subprocess.run(["rsync", "-a", "--exclude", "_build", "--exclude", ".git", "--exclude", "build", "/repo/", scratch + "/"], check=True)
    r = subprocess.run(["git", "apply", patch], cwd=scratch)
    env["DSA_REPO"] = scratch
    env["DSA_EVIDENCE_DIR"] = os.path.join(scratch, "_evidence")
    env["DSA_REPLAY_DIR"] = os.path.join(scratch, "_replay")
if r.returncode != 0:
    print("patch does not apply")
    if scratch:
        shutil.rmtree(scratch, ignore_errors=True)
    sys.exit(3)
res = {}


def one(p):
    out = subprocess.run([os.path.join(HERE, "check"), p, "--tier", tier], stdout=subprocess.PIPE, stderr=subprocess.STDOUT, text=True, cwd=HERE, env=env)
    return p, out


try:
    with ThreadPoolExecutor(max_workers=jobs if not inplace else 1) as ex:
        for p, out in ex.map(one, props):
            res[p] = out.returncode
            lines = [l for l in out.stdout.splitlines() if l.startswith(("VIOLATION", "ANALYSIS-BROKEN", "  at ", "  rule"))]
            print("%s -> exit %d" % (p, out.returncode))
            for l in lines[:9]:
                print("   " + l)
finally:
    if inplace:
        subprocess.run(["git", "-C", "/repo", "checkout", "--", "."])
    else:
        shutil.rmtree(scratch, ignore_errors=True)
fired = [p for p, rc in res.items() if rc == 1]
broken = [p for p, rc in res.items() if rc == 2]
print("FIRED: %s   BROKEN: %s" % (" ".join(fired) or "-", " ".join(broken) or "-"))
