#!/usr/bin/env python3
"""Both-ways test of the checkers: every patch in the corpus is applied to a scratch copy of /repo's
working tree (never to /repo itself) and the named checks are run against the copy.

  selftest/revfix/<sha>.diff     reverse of a "fix:" commit        -> the property's check must exit 1
  selftest/hand/cNN_*.diff       hand-written property-breaking edit -> check CNN must exit 1
  seeded/CNN-k/patch.diff        change produced by an isolated sub-agent -> check CNN must exit 1
  selftest/equiv/cNN_*.diff      behaviour-preserving rewrite of the same code -> check CNN must exit 0

usage: tools/selftest.py [--jobs N] [--tier quick|thorough] [filter-substring ...]
Writes selftest/RESULTS.json and prints one line per patch; exit 1 if any expectation fails."""
import json
import os
import re
import shutil
import subprocess
import sys
import tempfile
from concurrent.futures import ThreadPoolExecutor

HERE = os.path.dirname(os.path.dirname(os.path.abspath(__file__)))
REVFIX = json.load(open(os.path.join(HERE, "selftest", "revfix_map.json")))


def corpus():
    out = []
    d = os.path.join(HERE, "selftest", "revfix")
    for f in sorted(os.listdir(d)):
        if f.endswith(".diff"):
            sha = f[:-5]
            m = REVFIX.get(sha)
            if m and m.get("skip"):
                continue
            out.append(("revfix/" + f, os.path.join(d, f), (m or {}).get("props", []), "fire"))
    for kind, exp in (("hand", "fire"), ("equiv", "silent")):
        d = os.path.join(HERE, "selftest", kind)
        if not os.path.isdir(d):
            continue
        for f in sorted(os.listdir(d)):
            m = re.match(r"^c(\d\d)_", f)
            if f.endswith(".diff") and m:
                out.append((kind + "/" + f, os.path.join(d, f), ["C" + m.group(1)], exp))
            elif f.endswith(".diff") and f.startswith("all_"):
                allp = [c["property_id"] for c in json.load(open(os.path.join(HERE, "MANIFEST.json")))["checks"]]
                out.append((kind + "/" + f, os.path.join(d, f), allp, exp))
    d = os.path.join(HERE, "seeded")
    for s in sorted(os.listdir(d)) if os.path.isdir(d) else []:
        pf = os.path.join(d, s, "patch.diff")
        if os.path.exists(pf):
            props = [s.split("-")[0]]
            mf = os.path.join(d, s, "meta.json")
            if os.path.exists(mf):
                props = json.load(open(mf)).get("checks_expected", props)
            out.append(("seeded/" + s, pf, props, "fire"))
    return out


def run_one(item, tier):
    name, patch, props, exp = item
    scratch = tempfile.mkdtemp(prefix="dsa_st_", dir="/tmp")
    res = {}
    try:
        subprocess.run(["rsync", "-a", "--exclude", "_build", "--exclude", ".git", "/repo/", scratch + "/"], check=True)
        r = subprocess.run(["git", "apply", patch], cwd=scratch, stderr=subprocess.PIPE, text=True)
        if r.returncode != 0:
            return name, exp, {p: "noapply" for p in props}, False
        env = dict(os.environ, DSA_REPO=scratch, DSA_EVIDENCE_DIR=os.path.join(scratch, "_evidence"), DSA_REPLAY_DIR=os.path.join(scratch, "_replay"))
        for p in props:
            o = subprocess.run([os.path.join(HERE, "check"), p, "--tier", tier], stdout=subprocess.PIPE, stderr=subprocess.STDOUT, text=True, cwd=HERE, env=env)
            inst = sorted(set(re.findall(r"rule (C\d\d\.[\w-]+)", o.stdout)))
            keys = [json.loads(k) for k in re.findall(r"^  key (\[.*\])$", o.stdout, re.M)]
            res[p] = {"exit": o.returncode, "rules": inst, "keys": keys}
    finally:
        shutil.rmtree(scratch, ignore_errors=True)
    want = 1 if exp == "fire" else 0
    ok = bool(res) and all(v["exit"] == want for v in res.values())
    return name, exp, res, ok


def main():
    args = sys.argv[1:]
    jobs, tier = 4, "quick"
    while args and args[0].startswith("--"):
        if args[0] == "--jobs":
            jobs = int(args[1])
        elif args[0] == "--tier":
            tier = args[1]
        args = args[2:]
    items = [it for it in corpus() if not args or any(a in it[0] for a in args)]
    bad = 0
    results = {}
    with ThreadPoolExecutor(max_workers=jobs) as ex:
        for name, exp, res, ok in ex.map(lambda it: run_one(it, tier), items):
            results[name] = {"expect": exp, "result": res, "ok": ok}
            print("%-4s %-48s expect=%-6s %s" % ("ok" if ok else "FAIL", name, exp, " ".join("%s:%s%s" % (p, v["exit"] if isinstance(v, dict) else v, ("[" + ",".join(v["rules"]) + "]") if isinstance(v, dict) and v["rules"] else "") for p, v in res.items())), flush=True)
            if not ok:
                bad += 1
    rp = os.path.join(HERE, "selftest", "RESULTS.json")
    if args and os.path.exists(rp):          # a filtered run updates the entries it re-ran
        old = json.load(open(rp))
        if old.get("tier") == tier:
            old["results"].update(results)
            results = old["results"]
    with open(rp, "w") as fh:
        json.dump({"tier": tier, "results": results}, fh, indent=1, sort_keys=True)
    print("patches: %d, expectation failures: %d" % (len(items), bad))
    return 1 if bad else 0


if __name__ == "__main__":
    sys.exit(main())
