#!/usr/bin/env python3
"""usage: tools/mkmut.py <out.diff> <file-relative-to-/repo> <<< python dict {"old": "...", "new": "...", "count": 1}
Creates a mutant patch by exact text replacement in a scratch copy of the file (never touches /repo)."""
import difflib
import json
import sys

out, rel = sys.argv[1], sys.argv[2]
spec = json.load(sys.stdin)
src = open("/repo/" + rel).read()
assert src.count(spec["old"]) == spec.get("count", 1), "old text occurs %d times" % src.count(spec["old"])
new = src.replace(spec["old"], spec["new"])
d = difflib.unified_diff(src.splitlines(True), new.splitlines(True), "a/" + rel, "b/" + rel)
open(out, "w").write("".join(d))
print("wrote", out)
