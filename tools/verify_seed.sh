#!/bin/bash
# usage: tools/verify_seed.sh Cnn   -- independently confirm a seeded change left in /tmp/wt_Cnn (change applied, built):
#  1. builds with -Werror, 2. demo fails with the change, 3. the repo's suite passes with the change,
#  4. demo passes without the change. Writes /tmp/wt_Cnn/out/verify.log ; leaves the worktree WITHOUT the change.
P=$1; WT=/tmp/wt_$P; L=$WT/out/verify.log
{
echo "== verify $P $(date)"
cd $WT/src || exit 1
if [ -z "$(git diff --stat)" ]; then git apply $WT/out/patch.diff && echo "(re-applied patch.diff)"; fi
git diff --stat
git diff > $WT/out/patch.verify.diff
cmp -s $WT/out/patch.verify.diff $WT/out/patch.diff && echo "patch.diff matches worktree diff" || echo "NOTE: patch.diff differs from the worktree diff"
echo "-- build with change"; cmake --build _build -j8 2>&1 | tail -2
echo "-- demo with change (expect failure)"; (cd $WT/out && timeout 1200 bash ./run_demo.sh > demo_with.log 2>&1; echo "demo exit with change: $?")
echo "-- suite with change"; python3 /verif/tools/baseline_check.py $WT/src/_build
echo "suite exit: $?"
git apply -R $WT/out/patch.diff && echo "change removed"
echo "-- build without change"; cmake --build _build -j8 2>&1 | tail -1
echo "-- demo without change (expect pass)"; (cd $WT/out && timeout 1200 bash ./run_demo.sh > demo_without.log 2>&1; echo "demo exit without change: $?")
echo "== done"
} > $L 2>&1
