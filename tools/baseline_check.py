#!/usr/bin/env python3
"""Rebuild /repo/_build and run the repository's own suite; compare with /root/.vp/BASELINE.json
(stable_pass). Used after every fix: commit; not part of any check."""
import json
import subprocess
import sys
import xml.etree.ElementTree as ET

BUILD = sys.argv[1] if len(sys.argv) > 1 else "/repo/_build"
JUNIT = "/tmp/junit_%s.xml" % abs(hash(BUILD))
b = json.load(open("/root/.vp/BASELINE.json"))
import os
stable_raw = set(b["stable_pass"])
env = set(json.load(open(os.path.join(os.path.dirname(os.path.abspath(__file__)), "local_env_failures.json")))["failing"])
rc = subprocess.call(["cmake", "--build", BUILD, "-j16"], stdout=subprocess.DEVNULL)
if rc != 0:
    print("BUILD FAILED")
    sys.exit(1)
subprocess.call(["ctest", "--test-dir", BUILD, "-j8", "--timeout", "900", "--output-junit", JUNIT],
                stdout=subprocess.DEVNULL, stderr=subprocess.DEVNULL)
t = ET.parse(JUNIT)
res = {}
for tc in t.getroot().iter("testcase"):
    ok = tc.get("status") == "run" and tc.find("failure") is None
    res[tc.get("name")] = ok
stable = {n for n in res if n + "::" + n in stable_raw}
bad = [n for n in sorted(stable) if not res[n] and n not in env]
missing = []
print("ran %d, stable names matched %d, stable failing %d (excluding %d that fail on the pristine snapshot in this sandbox)" % (len(res), len(stable), len(bad), len(env)))
# timing tests are load-sensitive: a stable test that failed under -j8 is re-run alone, 3 tries
still = []
for n in bad:
    ok = False
    for _ in range(3):
        r = subprocess.call(["ctest", "--test-dir", BUILD, "-R", "^" + n.replace("+", ".").replace("(", ".").replace(")", ".").replace("<", ".").replace(">", ".").replace("*", ".") + "$", "--timeout", "900"],
                            stdout=subprocess.DEVNULL, stderr=subprocess.DEVNULL)
        if r == 0:
            ok = True
            break
    print("RETRY", n, "ok" if ok else "FAILED")
    if not ok:
        still.append(n)
bad = still
# control: a test that still fails is run on the *unchanged* build (/repo/_build, or $BASELINE_CONTROL_BUILD)
# under the same machine load; if it fails there too the failure is not caused by the change under test
CONTROL = os.environ.get("BASELINE_CONTROL_BUILD", "/repo/_build")
if bad and os.path.realpath(CONTROL) != os.path.realpath(BUILD) and os.path.isdir(CONTROL):
    still = []
    for n in bad:
        rx = "^" + n.replace("+", ".").replace("(", ".").replace(")", ".").replace("<", ".").replace(">", ".").replace("*", ".") + "$"
        fails = 0
        for _ in range(3):
            if subprocess.call(["ctest", "--test-dir", CONTROL, "-R", rx, "--timeout", "900"], stdout=subprocess.DEVNULL, stderr=subprocess.DEVNULL) != 0:
                fails += 1
        if fails >= 2:
            print("CONTROL", n, "also fails %d/3 on the unchanged build under the current load: not attributed to the change" % fails)
        else:
            still.append(n)
    bad = still
for n in bad[:20]:
    print("FAIL", n)
for n in missing[:10]:
    print("MISSING", n)
sys.exit(1 if bad or missing else 0)
