#!/usr/bin/env python3
"""Run every registered quick (or thorough) check on the current tree; print exit codes and times."""
import json, subprocess, sys, time, os
HERE = os.path.dirname(os.path.dirname(os.path.abspath(__file__)))
tier = sys.argv[1] if len(sys.argv) > 1 else "quick"
m = json.load(open(os.path.join(HERE, "MANIFEST.json")))
bad = 0
for c in m["checks"]:
    cmd = c["quick_cmd"] if tier == "quick" else c["thorough_cmd"]
    t = time.time()
    p = subprocess.run(cmd, shell=True, cwd=HERE, stdout=subprocess.PIPE, stderr=subprocess.STDOUT, text=True)
    dt = time.time() - t
    last = [l for l in p.stdout.splitlines() if l.strip()][-1] if p.stdout.strip() else ""
    print("%s exit=%d %.1fs  %s" % (c["property_id"], p.returncode, dt, last[:110]))
    if p.returncode != 0:
        bad += 1
        print("\n".join(p.stdout.splitlines()[:12]))
print("non-zero:", bad)
