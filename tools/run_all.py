#!/usr/bin/env python3
"""Run every registered quick (or thorough) check on the current tree; print exit codes and times.
usage: run_all.py [quick|thorough] [jobs]"""
import json, subprocess, sys, time, os
from concurrent.futures import ThreadPoolExecutor
HERE = os.path.dirname(os.path.dirname(os.path.abspath(__file__)))
tier = sys.argv[1] if len(sys.argv) > 1 else "quick"
jobs = int(sys.argv[2]) if len(sys.argv) > 2 else 1
m = json.load(open(os.path.join(HERE, "MANIFEST.json")))


def one(c):
    cmd = c["quick_cmd"] if tier == "quick" else c["thorough_cmd"]
    t = time.time()
    p = subprocess.run(cmd, shell=True, cwd=HERE, stdout=subprocess.PIPE, stderr=subprocess.STDOUT, text=True)
    return c, p, time.time() - t


bad = 0
with ThreadPoolExecutor(max_workers=jobs) as ex:
    for c, p, dt in ex.map(one, m["checks"]):
        last = [l for l in p.stdout.splitlines() if l.strip()][-1] if p.stdout.strip() else ""
        print("%s exit=%d %.1fs  %s" % (c["property_id"], p.returncode, dt, last[:110]), flush=True)
        if p.returncode != 0:
            bad += 1
            print("\n".join(p.stdout.splitlines()[:12]), flush=True)
print("non-zero:", bad)
