#!/bin/bash
# usage: mk_worktree.sh <dir>   -> git worktree of /repo HEAD at <dir>/src (not built)
set -e
mkdir -p "$1/out"
git -C /repo worktree add -q "$1/src" HEAD
echo "created $1/src"
