#!/usr/bin/env python3
import json
import os
import sys

HERE = os.path.dirname(os.path.dirname(os.path.abspath(__file__)))
sys.path.insert(0, HERE)
from props import registry  # noqa: E402

ids = [json.loads(l)["id"] for l in open(os.path.join(HERE, "properties.jsonl"))]
checks = []
na = []
import importlib
import re


def instances(pid):
    """rule instance ids named in the module's docstring (Cnn.xxx), in order"""
    mod = importlib.import_module("props." + pid)
    out = []
    for m in re.finditer(r"\b(%s\.[A-Za-z][\w-]*(?:\.[\w-]+)?)" % pid, mod.__doc__ or ""):
        if m.group(1) not in out:
            out.append(m.group(1))
    return out


for pid in ids:
    if pid in registry.CLAIMED:
        c = dict(registry.CLAIMED[pid])
        inst = instances(pid)
        if inst:
            c["text"] = c["text"].rstrip() + " Rule instances (each described in props/%s.py and DESIGN.md 11.2): %s." % (pid, ", ".join(inst))
        checks.append({
            "property_id": pid,
            "quick_cmd": "./check %s" % pid,
            "thorough_cmd": "./check %s --tier thorough" % pid,
            "evidence_file": "evidence/%s.json" % pid,
            "replay_cmd_template": "./check %s --replay {path}" % pid,
            "engine": "dsa",
            "level_claimed": {"category": c.get("category", "other"), "text": c["text"], "design_ref": "DESIGN.md section 4 (plan) and section 11.2 (as built), " + pid},
            "level_note": c["note"],
            "technique": c["technique"],
        })
    else:
        na.append({"property_id": pid, "reason": registry.NA.get(pid, "claim planned in DESIGN.md section 4 but its check is not built yet; not claimed until it is")})
m = {
    "version": 1,
    "setup_cmd": "python3 lib/build_tool.py",
    "hooks": {
        "guard": "FACEBOOKINCUBATOR_DISPENSO_VERIF",
        "enable": "none: static analysis needs no instrumentation; no guarded hook exists in /repo",
        "baseline_off_cmd": "cmake --build /repo/_build -j16 && ctest --test-dir /repo/_build -j8 --timeout 900",
        "source_commits": [],
        "add_only": True,
    },
    "engines": [{
        "name": "dsa",
        "path": "tool/dsa.cc",
        "serves_properties": [c["property_id"] for c in checks],
        "kind_free_text": "clang 14 libTooling extractor (type-checked AST + clang::CFG of every dispenso function instantiation, resolved callees, "
                          "atomic orders) + python rule instances (dominance, guard, must-pass, typestate) in props/*.py; nothing is executed",
    }],
    "checks": checks,
    "not_applicable": na,
    "notes": "Static analysis only. exit 0 pass / 1 VIOLATION / 2 analysis broken or inconclusive (anchor or vocabulary vanished, unit failed to parse, a shape the rule has no model for). known_findings.json lists recorded defects (known: KNOWN-FINDING line, exit 0) and the fix: commits. tools/selftest.py runs the both-ways corpus (reverted fixes, hand mutants, sub-agent seeds must fire; behaviour-preserving rewrites must stay silent).",
}
json.dump(m, open(os.path.join(HERE, "MANIFEST.json"), "w"), indent=1)
print("claimed %d, not applicable %d" % (len(checks), len(na)))
