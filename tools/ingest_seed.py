#!/usr/bin/env python3
"""usage: tools/ingest_seed.py Cnn [suffix]  -- after tools/verify_seed.sh Cnn confirmed the seeded change, copy it to
/verif/seeded/<Cnn>-<suffix>/ (patch.diff, demo.cpp, run_demo.sh, meta.json with the confirmation record)."""
import json
import os
import re
import shutil
import sys

pid = sys.argv[1]
suf = sys.argv[2] if len(sys.argv) > 2 else "1"
wt = "/tmp/wt_%s/out" % pid
if pid[-1].isalpha() and pid[-1].islower():      # second-round worktrees: /tmp/wt_C01b -> seeded/C01-2
    suf = str(ord(pid[-1]) - ord("a") + 1)
    pid = pid[:-1]
log = open(os.path.join(wt, "verify.log")).read()
m_with = re.search(r"demo exit with change: (\d+)", log)
m_wo = re.search(r"demo exit without change: (\d+)", log)
m_suite = re.search(r"suite exit: (\d+)", log)
ok = m_with and m_wo and m_suite and int(m_with.group(1)) != 0 and int(m_wo.group(1)) == 0 and int(m_suite.group(1)) == 0 and "error:" not in log
print("with=%s without=%s suite=%s -> %s" % (m_with and m_with.group(1), m_wo and m_wo.group(1), m_suite and m_suite.group(1), "CONFIRMED" if ok else "NOT CONFIRMED"))
if not ok:
    sys.exit(1)
dst = "/verif/seeded/%s-%s" % (pid, suf)
os.makedirs(dst, exist_ok=True)
for f in ("patch.diff", "demo.cpp", "run_demo.sh"):
    shutil.copy(os.path.join(wt, f), os.path.join(dst, f))
try:
    meta = json.load(open(os.path.join(wt, "meta.json")))
except Exception:
    meta = {"property": pid}
meta["property"] = pid
meta["origin"] = "independent sub-agent given only the property text and a scratch worktree (/tmp/wt_%s)" % pid
meta["confirmed_by_verif_author"] = {
    "procedure": "tools/verify_seed.sh: in the scratch worktree, build with -Werror with the change; run_demo.sh (must fail); "
                 "the repository suite via tools/baseline_check.py against BASELINE.json stable_pass (load-sensitive failures retried alone); "
                 "git apply -R; rebuild; run_demo.sh (must pass)",
    "demo_exit_with_change": int(m_with.group(1)),
    "demo_exit_without_change": int(m_wo.group(1)),
    "suite_with_change": "all stable_pass tests passed, or (load-sensitive timing tests only) failed at least 2/3 times on the unchanged build under the same machine load as well -- CONTROL lines in the log (8 CpuSet topology tests that fail on the pristine snapshot in this sandbox excluded)",
    "verify_log_tail": log[-1500:],
}
json.dump(meta, open(os.path.join(dst, "meta.json"), "w"), indent=1)
print("ingested ->", dst)
