#!/usr/bin/env python3
"""Print the prompt given to a mutation sub-agent for one property (property text only, nothing from /verif's checks)."""
import json
import sys

pid = sys.argv[1]
# optional: worktree suffix (second round) and a one-line note of what an earlier seeder already did
suffix = sys.argv[2] if len(sys.argv) > 2 else ""
avoid = sys.argv[3] if len(sys.argv) > 3 else ""
p = None
for l in open('/verif/properties.jsonl'):
    q = json.loads(l)
    if q['id'] == pid:
        p = q
wt = "/tmp/wt_%s%s" % (pid, suffix)
avoid_note = ("NOTE: another seeder has already produced this change for the same property: '" + avoid + "' -- pick a DIFFERENT mechanism in a different function (ideally a different file or a different clause of the property statement).\n") if avoid else ""
print(f"""You are helping to evaluate a verification framework by acting as an independent "bug seeder". Work ONLY inside the scratch git worktree {wt}/src (a worktree of the C++14 library facebookincubator/dispenso: work-stealing thread pool, task sets, futures, parallel_for, pipelines, concurrent containers) and the output directory {wt}/out. Do NOT read, list or modify anything under /verif or /repo (other than through your own worktree), and do not look for any verification tooling: your change must be independent of it.

THE PROPERTY (this is all you are told about what should hold):
  id: {p['id']}
  title: {p['title']}
  statement: {p['statement']}
  quantified over: {p['quantifier']['text']}

YOUR TASK: make ONE small, realistic source change to the library (files under {wt}/src/dispenso/, not tests, not third-party) that BREAKS this property, while
  (a) the library and all tests still compile (the build uses -Wall -Wextra -Wconversion -Werror), and
  (b) the repository's existing test suite still passes (see commands below), and
  (c) the breakage needs something SPECIFIC to manifest: a particular interleaving, a fault at a particular point, a multi-step sequence of operations, an unusual input/configuration, or two cooperating sites that each look fine alone. Do NOT make a change that ordinary use would expose at once (that would also fail the existing tests).
{avoid_note}The change should look like something a developer could plausibly commit by mistake (an off-by-one, a weakened memory order, a dropped check/decrement/wake on one rare path, a wrong constant, a swapped order of two statements, a guard removed from one branch, ...). Prefer 1-15 changed lines. Do not add comments that point out the bug.

Then write a DEMONSTRATION: a small standalone C++ program (or a gtest-free test) {wt}/out/demo.cpp that FAILS (non-zero exit, crash, hang detected by its own timeout, sanitizer report, or wrong count printed and non-zero exit) with your change and PASSES (exit 0) on the unchanged library. If the failure depends on a rare interleaving you may, in the demo only, widen the window (e.g. run many iterations, oversubscribe threads, use a sanitizer build, or a tiny demo-only sleep injected via a macro hook that exists ONLY in a scratch copy used by the demo) -- but the patch itself must not contain demo helpers. State honestly how often it reproduces.

HOW TO BUILD AND TEST (everything is offline; 16 cores; please use -j8):
  cd {wt}/src
  cmake -G Ninja -S . -B _build -DCMAKE_BUILD_TYPE=RelWithDebInfo -DDISPENSO_BUILD_TESTS=ON -DDISPENSO_SHARED_LIB=ON -DDISPENSO_WERROR=ON -DCMAKE_CXX_STANDARD=14 -DCMAKE_CXX_FLAGS=-Wno-error -DCMAKE_PREFIX_PATH=/root/miniconda
  cmake --build _build -j8            # ~3 min the first time
  ctest --test-dir _build -j8 --timeout 900     # ~1 min. NOTE: a handful of tests are known to fail/flake in this sandbox even on the unchanged tree: the 8 CpuSet.*L2*/L3*/BuildThreadGroups*/BuildGroupsFromRealTopology* tests (no cache topology here) and timing-sensitive TimedTaskTest.* cases under load. Run the suite on the UNCHANGED tree first to learn the local baseline, then with your change (twice); no test that passes on the unchanged tree may fail with your change.
  A demo can be built like:  g++ -std=c++14 -O1 -g -DNDEBUG -I{wt}/src -isystem {wt}/src/dispenso/third-party demo.cpp -o demo -L{wt}/src/_build/dispenso -ldispenso -lpthread -Wl,-rpath,{wt}/src/_build/dispenso
  (for sanitizer demos compile the library sources {wt}/src/dispenso/*.cpp and dispenso/detail/*.cpp directly into the demo with clang++ -fsanitize=thread|address). Note the release build defines NDEBUG, so asserts are compiled out.

DELIVERABLES (all in {wt}/out/):
  patch.diff   -- `git -C {wt}/src diff` of your library change ONLY (no test/demo files, no build dir)
  demo.cpp     -- the demonstration, plus run_demo.sh that builds and runs it against {wt}/src as it currently is and exits 0 iff the property held
  meta.json    -- {{"property": "{p['id']}", "summary": one sentence, "what_it_needs_to_manifest": ..., "files_changed": [...], "demo_result_with_change": ..., "demo_result_without_change": ..., "test_suite_with_change": "N passed / names of any failures", "reproduction_rate": ...}}
Before finishing: verify that run_demo.sh fails with the patch applied and passes without it. NEVER use `git stash` (the stash is shared by all worktrees of this repository and other people work in sibling worktrees concurrently); to switch use `git -C {wt}/src apply -R {wt}/out/patch.diff` (remove your change) and `git -C {wt}/src apply {wt}/out/patch.diff` (put it back), and leave the worktree WITH the change applied. Also verify `git -C {wt}/src diff` shows only your own change and that patch.diff applies cleanly to the clean checkout.
Leave the worktree in place. In your final message report: the summary, the diff, the demo results with/without the change, and the test-suite result. If you cannot find a change that satisfies (a)-(c) after a serious attempt, say so and explain what you tried; do not fake results.""")
