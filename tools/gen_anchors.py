#!/usr/bin/env python3
"""Freeze, per rule module, the unqualified identifiers it mentions that occur in the parsed program
today (fields, functions, parameters, constants). ./check refuses to conclude (exit 2) when one of
them has disappeared -- a rename must never turn into a VIOLATION. Run on the unchanged tree after
editing a rule module: python3 tools/gen_anchors.py"""
import importlib
import json
import os
import sys

HERE = os.path.dirname(os.path.dirname(os.path.abspath(__file__)))
sys.path.insert(0, HERE)
os.chdir(HERE)
from lib import extract, report  # noqa: E402
from props import registry  # noqa: E402

out = {}
cache = {}
for pid in sorted(registry.CLAIMED):
    mod = importlib.import_module("props." + pid)
    key = (tuple(getattr(mod, "DRIVERS", None) or ()), tuple(getattr(mod, "CONFIGS_QUICK", None) or ()))
    if key not in cache:
        cache[key] = extract.extract("quick", configs=getattr(mod, "CONFIGS_QUICK", None), drivers=getattr(mod, "DRIVERS", None))[0]
    F = cache[key]
    known = report.known_field_names(F, report.scope_prefixes(mod))
    lits = report.module_literals(mod)
    skip = set(getattr(mod, "ANCHOR_EXCLUDE", ()))   # names whose disappearance is itself a finding of a rule
    out[pid] = sorted(n for n in lits if n in known and n not in skip)
    print(pid, len(out[pid]))
json.dump(out, open(os.path.join(HERE, "props", "anchors.json"), "w"), indent=1, sort_keys=True)
