#!/usr/bin/env python3
"""usage: tools/mkpatch.py <out.diff> < edits.json     edits = [{"file": rel, "old": "...", "new": "...", "count": 1}, ...]
Builds a multi-file patch by exact text replacement on copies of /repo's files (never touches /repo)."""
import difflib
import json
import sys
from collections import OrderedDict

out = sys.argv[1]
edits = json.load(sys.stdin)
files = OrderedDict()
for e in edits:
    rel = e["file"]
    if rel not in files:
        files[rel] = [open("/repo/" + rel).read()] * 2
    cur = files[rel][1]
    n = cur.count(e["old"])
    assert n == e.get("count", 1), "%s: old text occurs %d times: %r" % (rel, n, e["old"][:60])
    files[rel][1] = cur.replace(e["old"], e["new"])
with open(out, "w") as fh:
    for rel, (a, b) in files.items():
        fh.write("".join(difflib.unified_diff(a.splitlines(True), b.splitlines(True), "a/" + rel, "b/" + rel)))
print("wrote", out)
