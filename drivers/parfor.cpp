// Compile-only driver (never run): parallel_for / for_each instantiation matrix.
#include <dispenso/for_each.h>
#include <dispenso/parallel_for.h>
#include <cstdint>
#include <deque>
#include <forward_list>
#include <list>
#include <vector>

namespace dsa_driver {

template <typename IntT, typename TaskSetT>
void pf_matrix(TaskSetT& ts, long* sink) {
  dispenso::ParForOptions o;
  o.granularity = 8;
  o.wait = false;
  dispenso::parallel_for(ts, IntT(0), IntT(100), [sink](IntT i) { *sink += static_cast<long>(i); });
  dispenso::parallel_for(ts, IntT(0), IntT(100), [sink](IntT b, IntT e) { *sink += static_cast<long>(e - b); }, o);
  dispenso::parallel_for(ts, dispenso::makeChunkedRange(IntT(0), IntT(100), dispenso::ParForChunking::kStatic), [sink](IntT b, IntT e) { *sink += static_cast<long>(e - b); }, o);
  dispenso::parallel_for(ts, dispenso::makeChunkedRange(IntT(0), IntT(100), dispenso::ParForChunking::kAdaptive), [sink](IntT b, IntT e) { *sink += static_cast<long>(e - b); });
  dispenso::parallel_for(ts, dispenso::makeChunkedRange(IntT(0), IntT(100), IntT(7)), [sink](IntT b, IntT e) { *sink += static_cast<long>(e - b); }, o);
  std::vector<long> states;
  dispenso::parallel_for(ts, states, []() { return 0L; }, IntT(0), IntT(100), [](long& s, IntT i) { s += static_cast<long>(i); });
  std::deque<long> dstates;
  dispenso::parallel_for(ts, dstates, []() { return 0L; }, dispenso::makeChunkedRange(IntT(0), IntT(100), dispenso::ParForChunking::kStatic), [](long& s, IntT b, IntT e) { s += static_cast<long>(e - b); }, o);
  dispenso::parallel_for(ts, dstates, []() { return 0L; }, dispenso::makeChunkedRange(IntT(0), IntT(100), dispenso::ParForChunking::kAdaptive), [](long& s, IntT b, IntT e) { s += static_cast<long>(e - b); }, o);
  ts.wait();
}

void parfor(dispenso::ThreadPool& pool, long* sink) {
  dispenso::TaskSet ts(pool);
  dispenso::ConcurrentTaskSet cts(pool);
  pf_matrix<int32_t>(ts, sink);
  pf_matrix<uint64_t>(cts, sink);
  pf_matrix<uint8_t>(ts, sink);
  dispenso::parallel_for(0, 100, [sink](int i) { *sink += i; });
  dispenso::parallel_for(dispenso::makeChunkedRange(0, 100, dispenso::ParForChunking::kAdaptive), [sink](int b, int e) { *sink += e - b; });
  std::vector<long> states;
  dispenso::parallel_for(states, []() { return 0L; }, 0, 100, [](long& s, int i) { s += i; });
}

void foreach(dispenso::ThreadPool& pool, long* sink) {
  dispenso::TaskSet ts(pool);
  dispenso::ConcurrentTaskSet cts(pool);
  std::vector<int> v(100);
  std::list<int> l(100);
  std::forward_list<int> fl(100);
  dispenso::ForEachOptions o;
  o.wait = false;
  dispenso::for_each(ts, v.begin(), v.end(), [sink](int& x) { *sink += x; });
  dispenso::for_each(ts, v.begin(), v.end(), [sink](int& x) { *sink += x; }, o);
  dispenso::for_each(cts, l.begin(), l.end(), [sink](int& x) { *sink += x; });
  dispenso::for_each(ts, l.begin(), l.end(), [sink](int& x) { *sink += x; }, o);
  dispenso::for_each(ts, fl.begin(), fl.end(), [sink](int& x) { *sink += x; });
  dispenso::for_each_n(ts, v.begin(), 50, [sink](int& x) { *sink += x; });
  dispenso::for_each_n(cts, fl.begin(), 50, [sink](int& x) { *sink += x; }, o);
  dispenso::for_each(v.begin(), v.end(), [sink](int& x) { *sink += x; });
  dispenso::for_each_n(l.begin(), 50, [sink](int& x) { *sink += x; });
  ts.wait();
  cts.wait();
}

} // namespace dsa_driver
