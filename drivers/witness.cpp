// Compile-only driver (never run): compile-time witnesses read from the AST (variables named dsa_w_*).
#include <dispenso/once_function.h>
#include <dispenso/parallel_for.h>
#include <dispenso/pipeline.h>
#include <dispenso/small_buffer_allocator.h>
#include <cstdint>

namespace dsa_driver {

#define DSA_STRIPE(T)                                                                              \
  constexpr long dsa_w_stripe_wide_##T = sizeof(typename dispenso::detail::StripeCursor<T>::WideT); \
  constexpr long dsa_w_index_size_##T = sizeof(T);
DSA_STRIPE(int8_t)
DSA_STRIPE(uint8_t)
DSA_STRIPE(int16_t)
DSA_STRIPE(uint16_t)
DSA_STRIPE(int32_t)
DSA_STRIPE(uint32_t)
DSA_STRIPE(int64_t)
DSA_STRIPE(uint64_t)

} // namespace dsa_driver
