// Compile-only driver (never run): compile-time witnesses read from the AST (variables named dsa_w_*).
#include <dispenso/once_function.h>
#include <dispenso/parallel_for.h>
#include <dispenso/pipeline.h>
#include <dispenso/small_buffer_allocator.h>
#include <cstdint>

namespace dsa_driver {

#define DSA_STRIPE(T)                                                                              \
  constexpr long dsa_w_stripe_wide_##T = sizeof(typename dispenso::detail::StripeCursor<T>::WideT); \
  constexpr long dsa_w_index_size_##T = sizeof(T);
DSA_STRIPE(int8_t)
DSA_STRIPE(uint8_t)
DSA_STRIPE(int16_t)
DSA_STRIPE(uint16_t)
DSA_STRIPE(int32_t)
DSA_STRIPE(uint32_t)
DSA_STRIPE(int64_t)
DSA_STRIPE(uint64_t)

} // namespace dsa_driver

// OnceFunction storage selection: a family of callables of various sizes / alignments, each wrapped in a
// OnceFunction so that createOnceCallable / createOnceCallableImpl are instantiated for it.
#include <dispenso/small_buffer_allocator.h>
namespace dsa_driver {
template <size_t Size, size_t Align>
struct alignas(Align) Callable {
  char pad[Size];
  void operator()() const {}
};
template <size_t Size, size_t Align>
void wrap() {
  dispenso::OnceFunction f(Callable<Size, Align>{});
  f();
}
void once_family() {
  wrap<1, 1>();
  wrap<8, 8>();
  wrap<48, 16>();
  wrap<56, 8>();
  wrap<64, 64>();
  wrap<57, 1>();
  wrap<64, 8>();
  wrap<128, 128>();
  wrap<200, 8>();
  wrap<256, 256>();
  wrap<300, 4>();
  wrap<512, 64>();
  // above the pooled classes *and* over-aligned: the block comes straight from alignedMalloc
  wrap<384, 128>();
  wrap<512, 256>();
  wrap<768, 128>();
  wrap<1024, 256>();
  wrap<5120, 256>();
  // pooled classes with the maximal alignment the class allows
  wrap<16, 16>();
  wrap<32, 32>();
  wrap<96, 32>();
  wrap<192, 64>();
  wrap<129, 1>();
  wrap<257, 1>();
}
constexpr long dsa_w_once_sizeof = sizeof(dispenso::OnceFunction);
constexpr long dsa_w_once_alignof = alignof(dispenso::OnceFunction);
constexpr long dsa_w_once_inline_size = dispenso::detail::kOnceFunctionInlineSize;
constexpr long dsa_w_ordinal_4 = static_cast<long>(dispenso::detail::getOrdinal(4));
constexpr long dsa_w_ordinal_8 = static_cast<long>(dispenso::detail::getOrdinal(8));
constexpr long dsa_w_ordinal_16 = static_cast<long>(dispenso::detail::getOrdinal(16));
constexpr long dsa_w_ordinal_32 = static_cast<long>(dispenso::detail::getOrdinal(32));
constexpr long dsa_w_ordinal_64 = static_cast<long>(dispenso::detail::getOrdinal(64));
constexpr long dsa_w_ordinal_128 = static_cast<long>(dispenso::detail::getOrdinal(128));
constexpr long dsa_w_ordinal_256 = static_cast<long>(dispenso::detail::getOrdinal(256));
constexpr long dsa_w_max_small = static_cast<long>(dispenso::kMaxSmallBufferSize);
} // namespace dsa_driver

