// Compile-only driver (never run): pulls in every public header so that all non-template inline
// functions have bodies in at least one analysed unit.
#include <dispenso/dispenso.h>
