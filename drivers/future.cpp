// Compile-only driver (never run): Future construction on every schedulable, then(), when_all/when_any
// (plain and task-set variants), timed waits, ready futures, void / reference results.
#include <dispenso/future.h>
#include <chrono>
#include <vector>

namespace dsa_driver {

int futures(dispenso::ThreadPool& pool) {
  dispenso::TaskSet ts(pool);
  dispenso::ConcurrentTaskSet cts(pool);
  dispenso::Future<int> a([]() { return 1; }, pool);
  dispenso::Future<int> b([]() { return 2; }, pool, std::launch::async, std::launch::deferred);
  dispenso::Future<int> c([]() { return 3; }, ts);
  dispenso::Future<int> d([]() { return 4; }, cts);
  dispenso::Future<int> e([]() { return 5; }, dispenso::kImmediateInvoker);
  dispenso::Future<int> f([]() { return 6; }, dispenso::kNewThreadInvoker);
  dispenso::Future<void> v([]() {}, pool);
  int target = 0;
  dispenso::Future<int&> r([&target]() -> int& { return target; }, pool);
  dispenso::Future<int> copy = a;
  dispenso::Future<int> moved = std::move(b);
  copy = c;
  moved = std::move(d);

  auto t1 = a.then([](dispenso::Future<int>&& x) { return x.get() + 1; }, pool);
  auto t2 = a.then([](dispenso::Future<int>&& x) { return x.get() + 1; }, ts);
  auto t3 = a.then([](dispenso::Future<int>&& x) { return x.get() + 1; }, cts);
  auto t4 = a.then([](dispenso::Future<int>&& x) { return x.get() + 1; }, dispenso::kImmediateInvoker);
  auto t5 = v.then([](dispenso::Future<void>&& x) { x.get(); }, pool);
  auto t6 = a.then([](dispenso::Future<int>&& x) { return x.get() + 1; }, pool, std::launch::async, std::launch::deferred);
  auto t7 = r.then([](dispenso::Future<int&>&& x) { return x.get() + 1; }, pool);

  std::vector<dispenso::Future<int>> vec;
  vec.push_back(a);
  vec.push_back(copy);
  auto all1 = dispenso::when_all(vec.begin(), vec.end());
  auto all2 = dispenso::when_all(a, copy, v);
  auto all3 = dispenso::when_all(ts, vec.begin(), vec.end());
  auto all4 = dispenso::when_all(cts, vec.begin(), vec.end());
  auto all5 = dispenso::when_all(ts, a, copy);
  auto all6 = dispenso::when_all(cts, a, copy);
  auto any1 = dispenso::when_any(vec.begin(), vec.end());
  auto any2 = dispenso::when_any(a, copy);
  auto any3 = dispenso::when_any(ts, vec.begin(), vec.end());
  auto any4 = dispenso::when_any(cts, vec.begin(), vec.end());
  auto any5 = dispenso::when_any(ts, a, copy);
  auto any6 = dispenso::when_any(cts, a, copy);

  auto as1 = dispenso::async([]() { return 7; });
  auto as2 = dispenso::async(std::launch::async, []() { return 7; });
  auto as3 = dispenso::async(pool, []() { return 7; });
  auto as4 = dispenso::async(ts, []() { return 7; });
  auto as5 = dispenso::async(cts, []() { return 7; });
  auto as6 = dispenso::async(dispenso::kNewThreadInvoker, []() { return 7; });
  auto rd1 = dispenso::make_ready_future(8);
  auto rd2 = dispenso::make_ready_future(std::ref(target));
  auto rd3 = dispenso::make_ready_future();

  (void)a.is_ready();
  a.wait();
  (void)a.wait_for(std::chrono::milliseconds(1));
  (void)a.wait_until(std::chrono::steady_clock::now() + std::chrono::milliseconds(1));
  v.get();
  rd3.get();
  int s = a.get() + moved.get() + copy.get() + e.get() + f.get() + r.get() + t1.get() + t2.get() + t3.get() + t4.get() + t6.get() + t7.get();
  t5.get();
  s += static_cast<int>(all1.get().size()) + std::get<0>(all2.get()).get() + static_cast<int>(all3.get().size()) +
      static_cast<int>(all4.get().size()) + std::get<0>(all5.get()).get() + std::get<1>(all6.get()).get();
  s += static_cast<int>(any1.get() + any2.get() + any3.get() + any4.get() + any5.get() + any6.get());
  s += as1.get() + as2.get() + as3.get() + as4.get() + as5.get() + as6.get() + rd1.get() + rd2.get();
  ts.wait();
  cts.wait();
  return s;
}

} // namespace dsa_driver
