// Compile-only driver (never run): pipeline shapes (single stage, generator+sink, transform and filtering
// transform stages, limited / serial / unlimited stages, move-only payloads).
#include <dispenso/pipeline.h>
#include <memory>

namespace dsa_driver {

void pipelines(dispenso::ThreadPool& pool, int* sum) {
  int n = 0;
  // single stage
  dispenso::pipeline(pool, [&n]() { return ++n < 10; });
  dispenso::pipeline(pool, dispenso::stage([&n]() { return ++n < 10; }, 3));
  // generator + sink (serial)
  dispenso::pipeline(
      pool,
      [&n]() -> dispenso::OpResult<int> { if (n++ < 10) return n; return {}; },
      [sum](int v) { *sum += v; });
  // generator + transform + filtering transform + sink with limits
  dispenso::pipeline(
      pool,
      dispenso::stage([&n]() -> dispenso::OpResult<int> { if (n++ < 10) return n; return {}; }, 2),
      dispenso::stage([](int v) { return v * 2; }, 4),
      dispenso::stage([](int v) -> dispenso::OpResult<int> { if (v & 1) return {}; return v; }, dispenso::kStageNoLimit),
      dispenso::stage([sum](int v) { *sum += v; }, 1));
  // move-only payload
  dispenso::pipeline(
      pool,
      [&n]() -> dispenso::OpResult<std::unique_ptr<int>> { if (n++ < 10) return std::make_unique<int>(n); return {}; },
      dispenso::stage([](std::unique_ptr<int> p) { return p; }, 3),
      [sum](std::unique_ptr<int> p) { *sum += *p; });
  // global pool overload
  dispenso::pipeline(
      [&n]() -> dispenso::OpResult<int> { if (n++ < 10) return n; return {}; },
      [sum](int v) { *sum += v; });
}

} // namespace dsa_driver
