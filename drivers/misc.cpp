// Compile-only driver (never run): instantiates the class templates of the smaller components with
// representative element types (trivial, non-trivially-destructible, move-only, over-aligned).
#include <dispenso/dispenso.h>
#include <memory>
#include <string>
#include <vector>

namespace dsa_driver {

struct Tracked {
  Tracked() noexcept {}
  Tracked(const Tracked&) noexcept {}
  Tracked(Tracked&&) noexcept {}
  Tracked& operator=(const Tracked&) noexcept { return *this; }
  Tracked& operator=(Tracked&&) noexcept { return *this; }
  ~Tracked() {}
  int v = 0;
};
struct alignas(64) Over64 {
  Over64() {}
  Over64(const Over64&) {}
  ~Over64() {}
  char c[64];
};

int async_request() {
  dispenso::AsyncRequest<Tracked> req;
  req.requestUpdate();
  (void)req.updateRequested();
  (void)req.tryEmplaceUpdate();
  auto r = req.getUpdate();
  dispenso::AsyncRequest<std::unique_ptr<int>> req2;
  req2.requestUpdate();
  (void)req2.tryEmplaceUpdate(std::make_unique<int>(1));
  auto r2 = req2.getUpdate();
  return (r ? 1 : 0) + (r2 ? 1 : 0);
}

int op_result() {
  dispenso::detail::OpResult<Tracked> a;
  dispenso::detail::OpResult<Tracked> b{Tracked()};
  dispenso::detail::OpResult<Tracked> c(b);
  dispenso::detail::OpResult<Tracked> d(std::move(b));
  a = c;
  a = std::move(d);
  a.emplace();
  a.reset();
  dispenso::detail::OpResult<std::string> s{std::string("x")};
  dispenso::detail::OpResult<std::string> s2(std::move(s));
  s = std::move(s2);
  return (a ? 1 : 0) + (a.has_value() ? 1 : 0) + (s ? static_cast<int>(s.value().size()) : 0);
}

size_t arena() {
  dispenso::ConcurrentObjectArena<int> a(16);
  a.grow_by(40);
  dispenso::ConcurrentObjectArena<int> b(a);
  dispenso::ConcurrentObjectArena<int> c(std::move(b));
  dispenso::ConcurrentObjectArena<int> d(8);
  d = a;
  d = std::move(c);
  swap(a, d);
  return a.size() + a.numBuffers() + a.capacity() + static_cast<size_t>(a[3]) + a.getBuffer(0)[0] + a.getBufferSize(0);
}

int resource_pool() {
  dispenso::ResourcePool<Tracked> pool(4, []() { return Tracked(); });
  auto r = pool.acquire();
  auto r2 = std::move(r);
  r = std::move(r2);
  return r.get().v;
}

void locks() {
  dispenso::RWLock l;
  l.lock();
  l.unlock();
  (void)l.try_lock();
  l.lock_shared();
  l.unlock_shared();
  (void)l.try_lock_shared();
  l.lock_upgrade();
  l.lock_downgrade();
  dispenso::UnalignedRWLock u;
  u.lock();
  u.unlock();
  dispenso::DistributedRWLock<8> dl;
  dl.lock();
  dl.unlock();
  (void)dl.try_lock();
  dl.lock_shared();
  dl.unlock_shared();
  (void)dl.try_lock_shared();
  dispenso::Latch latch(3);
  latch.count_down(2);
  latch.arrive_and_wait();
  (void)latch.try_wait();
  latch.wait();
  dispenso::CompletionEvent ev;
  ev.notify();
  ev.wait();
  (void)ev.completed();
  (void)ev.waitFor(std::chrono::milliseconds(1));
  (void)ev.waitUntil(std::chrono::steady_clock::now());
  ev.reset();
}

size_t allocators() {
  char* p4 = dispenso::allocSmallBuffer<4>();
  dispenso::deallocSmallBuffer<4>(p4);
  char* p64 = dispenso::allocSmallBuffer<64>();
  dispenso::deallocSmallBuffer<64>(p64);
  char* p512 = dispenso::allocSmallBuffer<512>();
  dispenso::deallocSmallBuffer<512>(p512);
  size_t n = dispenso::approxBytesAllocatedSmallBuffer<64>();
  dispenso::PoolAllocator pa(64, 4096, ::malloc, ::free);
  char* c = pa.alloc();
  pa.dealloc(c);
  pa.clear();
  dispenso::NoLockPoolAllocator npa(64, 4096, ::malloc, ::free);
  char* c2 = npa.alloc();
  npa.dealloc(c2);
  npa.clear();
  return n + pa.totalChunkCapacity() + npa.totalChunkCapacity();
}

int rings() {
  dispenso::MpmcRingBuffer<Tracked, 8> m;
  Tracked t;
  (void)m.try_push(t);
  (void)m.try_push(Tracked());
  (void)m.try_emplace();
  (void)m.try_pop(t);
  auto o = m.try_pop();
  alignas(Tracked) char raw[sizeof(Tracked)];
  if (m.try_pop_into(reinterpret_cast<Tracked*>(raw))) {
    reinterpret_cast<Tracked*>(raw)->~Tracked();
  }
  Tracked arr[3];
  (void)m.try_push_batch(arr, 3);
  dispenso::MpmcRingBuffer<std::unique_ptr<int>, 4> mu;
  (void)mu.try_push(std::make_unique<int>(1));
  std::unique_ptr<int> up;
  (void)mu.try_pop(up);

  dispenso::SPSCRingBuffer<Tracked, 8> s;
  (void)s.try_push(t);
  (void)s.try_push(Tracked());
  (void)s.try_emplace();
  (void)s.try_pop(t);
  auto so = s.try_pop();
  if (s.try_pop_into(reinterpret_cast<Tracked*>(raw))) {
    reinterpret_cast<Tracked*>(raw)->~Tracked();
  }
  std::vector<Tracked> vin(3), vout(3);
  (void)s.try_push_batch(vin.begin(), vin.end());
  (void)s.try_pop_batch(vout.begin(), 3);
  // exact (non power-of-two) internal sizes: 5 and 7 slots
  dispenso::SPSCRingBuffer<Tracked, 4, false> s5;
  (void)s5.try_push_batch(vin.begin(), vin.end());
  (void)s5.try_pop_batch(vout.begin(), 3);
  dispenso::SPSCRingBuffer<Tracked, 6, false> s7;
  (void)s7.try_push_batch(vin.begin(), vin.end());
  (void)s7.try_pop_batch(vout.begin(), 3);
  (void)s7.try_push(t);
  (void)s7.try_pop(t);

  dispenso::ChaseLevDeque<int*, 64> d;
  int x = 0;
  int* px = &x;
  (void)d.try_push(px);
  (void)d.try_pop(px);
  (void)d.try_steal(px);
  alignas(int*) char rawp[sizeof(int*)];
  (void)d.try_pop_into(reinterpret_cast<int**>(rawp));
  (void)d.try_steal_into(reinterpret_cast<int**>(rawp));
  return (o ? 1 : 0) + (so ? 1 : 0) + static_cast<int>(m.size() + s.size() + d.size()) + (m.empty() ? 1 : 0) + (m.full() ? 1 : 0);
}

size_t small_vectors() {
  dispenso::SmallVector<Tracked, 4> v;
  Tracked t;
  v.push_back(t);
  v.push_back(Tracked());
  v.emplace_back();
  v.pop_back();
  v.resize(9);
  v.resize(2);
  v.resize(5, t);
  v.erase(v.begin());
  v.reserve(32);
  dispenso::SmallVector<Tracked, 4> w(v);
  dispenso::SmallVector<Tracked, 4> x(std::move(w));
  w = x;
  w = std::move(x);
  v.clear();
  dispenso::SmallVector<Over64, 2> o;
  o.emplace_back();
  o.emplace_back();
  o.emplace_back();
  dispenso::SmallVector<int, 8> iv(3);
  // the smallest legal inline capacities: growth arithmetic must still make progress
  dispenso::SmallVector<Tracked, 1> one;
  one.emplace_back();
  one.push_back(t);
  dispenso::SmallVector<Tracked, 3> three;
  three.emplace_back();
  return v.size() + w.size() + o.size() + iv.size() + w.capacity() + one.size() + three.size();
}

size_t concurrent_vectors() {
  dispenso::ConcurrentVector<Tracked> v;
  Tracked t;
  v.push_back(t);
  v.push_back(Tracked());
  v.emplace_back();
  v.grow_by(3);
  v.grow_by(3, t);
  v.grow_to_at_least(20);
  v.insert(v.begin() + 1, t);
  v.insert(v.begin() + 1, Tracked());
  v.insert(v.begin() + 1, size_t{2}, t);
  std::vector<Tracked> src(3);
  v.insert(v.begin(), src.begin(), src.end());
  v.erase(v.begin() + 1);
  v.erase(v.begin() + 1, v.begin() + 3);
  v.pop_back();
  v.resize(30);
  v.resize(4);
  v.resize(9, t);
  v.reserve(100);
  v.shrink_to_fit();
  v.assign(size_t{5}, t);
  v.assign(src.begin(), src.end());
  dispenso::ConcurrentVector<Tracked> w(v);
  dispenso::ConcurrentVector<Tracked> x(std::move(w));
  w = x;
  w = std::move(x);
  v.swap(w);
  v.clear();
  return v.size() + w.size() + v.capacity();
}

void once_functions(int* p) {
  struct Big {
    char pad[200];
    int* p;
    void operator()() const { ++*p; }
  };
  dispenso::OnceFunction small([p]() { ++*p; });
  small();
  dispenso::OnceFunction big(Big{{}, p});
  big.cleanupNotRun();
  Over64 o;
  dispenso::OnceFunction aligned([o, p]() { ++*p; });
  dispenso::OnceFunction moved(std::move(aligned));
  moved();
}

void invoke(dispenso::ThreadPool& pool, int* p) {
  dispenso::ConcurrentTaskSet cts(pool);
  dispenso::parallel_invoke(cts, [p]() { ++*p; }, [p]() { ++*p; });
  dispenso::parallel_invoke(cts, [p]() { ++*p; }, [p]() { ++*p; }, [p]() { ++*p; }, [p]() { ++*p; }, [p]() { ++*p; });
  dispenso::parallel_invoke(cts, [p]() { ++*p; }, [p]() { ++*p; }, [p]() { ++*p; });
  cts.wait();
}

double timed(dispenso::ThreadPool& pool, int* p) {
  dispenso::TimedTaskScheduler sched;
  dispenso::TimedTask a = sched.schedule(pool, [p]() { ++*p; return true; }, dispenso::getTime() + 0.01, 0.01, 3);
  dispenso::TimedTask b = sched.schedule(dispenso::kImmediateInvoker, [p]() { ++*p; return false; }, std::chrono::steady_clock::now() + std::chrono::milliseconds(1));
  a.cancel();
  b.detach();
  return static_cast<double>(a.calls());
}

} // namespace dsa_driver
