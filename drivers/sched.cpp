// Compile-only driver (never run): instantiates the scheduling entry points of ThreadPool, TaskSet and
// ConcurrentTaskSet with the functor kinds the library itself uses (lambda, OnceFunction, generator).
#include <dispenso/task_set.h>
#include <dispenso/thread_pool.h>

namespace dsa_driver {

struct Functor {
  int* p;
  void operator()() const { ++*p; }
};

void pool_entries(dispenso::ThreadPool& pool, int* p) {
  pool.schedule([p]() { ++*p; });
  pool.schedule([p]() { ++*p; }, dispenso::ForceQueuingTag());
  pool.schedule(Functor{p});
  pool.schedule(Functor{p}, dispenso::ForceQueuingTag());
  dispenso::OnceFunction once([p]() { ++*p; });
  pool.schedule(std::move(once));
  dispenso::OnceFunction once2([p]() { ++*p; });
  pool.schedule(std::move(once2), dispenso::ForceQueuingTag());
  pool.scheduleBulk(7, [p](size_t) { return [p]() { ++*p; }; });
  pool.resize(3);
  pool.setSignalingWake(true, std::chrono::milliseconds(10));
  pool.setSignalingWake(false, std::chrono::milliseconds(10));
}

void taskset_entries(dispenso::ThreadPool& pool, int* p) {
  dispenso::TaskSet ts(pool);
  ts.schedule([p]() { ++*p; });
  ts.schedule([p]() { ++*p; }, dispenso::ForceQueuingTag());
  ts.schedule(Functor{p});
  dispenso::OnceFunction once([p]() { ++*p; });
  ts.schedule(std::move(once));
  dispenso::OnceFunction once2([p]() { ++*p; });
  ts.schedule(std::move(once2), dispenso::ForceQueuingTag());
  ts.scheduleBulk(9, [p](size_t) { return [p]() { ++*p; }; });
  ts.scheduleBulk(9, [p](size_t) { return [p]() { ++*p; }; }, dispenso::ForceQueuingTag());
  ts.scheduleBulk(3, [p](size_t) { return dispenso::OnceFunction([p]() { ++*p; }); });
  ts.cancel();
  (void)ts.canceled();
  (void)ts.tryWait(3);
  (void)ts.wait();
}

void cts_entries(dispenso::ThreadPool& pool, int* p) {
  dispenso::ConcurrentTaskSet cts(pool);
  cts.schedule([p]() { ++*p; });
  cts.schedule([p]() { ++*p; }, true);
  cts.schedule([p]() { ++*p; }, dispenso::ForceQueuingTag());
  cts.schedule(Functor{p});
  dispenso::OnceFunction once([p]() { ++*p; });
  cts.schedule(std::move(once));
  dispenso::OnceFunction once2([p]() { ++*p; });
  cts.schedule(std::move(once2), dispenso::ForceQueuingTag());
  cts.scheduleBulk(9, [p](size_t) { return [p]() { ++*p; }; });
  cts.scheduleBulk(9, [p](size_t) { return [p]() { ++*p; }; }, dispenso::ForceQueuingTag());
  dispenso::ConcurrentTaskSet light(pool, dispenso::TaskCost::kLightweight);
  light.schedule([p]() { ++*p; });
  dispenso::ConcurrentTaskSet child(pool, dispenso::ParentCascadeCancel::kOn);
  child.schedule([p]() { ++*p; });
  cts.cancel();
  (void)cts.canceled();
  (void)cts.tryWait(3);
  (void)cts.wait();
}

} // namespace dsa_driver
