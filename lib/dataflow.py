"""A small path-sensitive forward analysis over one function's CFG for *finite* abstract states.

States are hashable values; the analysis computes, for every block entry, the set of states that
can reach it (power-set domain, so it is exact for the tracked component: no merging of different
states). `transfer(pos, ev, state)` returns the successor state, or a list of states, or raises
Violation; `refine(cond, polarity, state)` returns the state on that branch edge, or None when the
edge is infeasible for that state. Used by the typestate (K5) and balance (K14) rule kinds.
"""
from collections import deque

from .facts import Pos


class Violation(Exception):
    def __init__(self, msg, pos=None, ev=None, trail=None):
        Exception.__init__(self, msg)
        self.msg = msg
        self.pos = pos
        self.ev = ev
        self.trail = trail or []


def run(fn, init, transfer, refine=None, at_exit=None, extra_edges=None, entry=None, max_states=20000, on_backedge=None):
    """Returns (violations, stats). violations: list of dict(msg, pos, ev, trail[block ids])."""
    start = fn.entry if entry is None else entry
    seen = {}
    dq = deque()
    vios = []
    vkeys = set()

    def push(b, st, prev):
        k = (b, st)
        if k in seen:
            return
        seen[k] = prev
        dq.append(k)

    def trail_of(k):
        out = []
        n = 0
        while k is not None and n < 400:
            out.append(k[0])
            k = seen.get(k)
            n += 1
        return list(reversed(out))

    def report(msg, pos, ev, k):
        key = (msg, pos)
        if key in vkeys:
            return
        vkeys.add(key)
        vios.append({"msg": msg, "pos": pos, "ev": ev, "trail": trail_of(k)})

    push(start, init, None)
    steps = 0
    while dq:
        k = dq.popleft()
        b, st = k
        steps += 1
        if steps > max_states:
            vios.append({"msg": "state budget exceeded (inconclusive)", "pos": Pos(b, 0), "ev": None, "trail": trail_of(k), "inconclusive": True})
            break
        blk = fn.blocks[b]
        states = [st]
        dead = False
        for i, ev in enumerate(blk["elems"]):
            nxt = []
            for s in states:
                try:
                    r = transfer(Pos(b, i), ev, s)
                except Violation as v:
                    report(v.msg, Pos(b, i), ev, k)
                    continue
                if r is None:
                    continue
                if isinstance(r, list):
                    nxt.extend(r)
                else:
                    nxt.append(r)
            states = list(dict.fromkeys(nxt))
            if not states:
                dead = True
                break
        if dead:
            continue
        if b == fn.exit:
            if at_exit:
                for s in states:
                    m = at_exit(s)
                    if m:
                        report(m, Pos(b, 0), None, k)
            continue
        if b in fn.abnormal_blocks():
            continue
        t = blk.get("term")
        succs = blk["succs"]
        cond = t.get("cond") if t else None
        for idx, sb in enumerate(succs):
            if sb is None:
                continue
            for s in states:
                s2 = s
                if refine is not None and cond is not None and len(succs) == 2:
                    # the edge's facts, one atom at a time: the condition as written, its operands
                    # when it is a conjunction (true edge) / disjunction (false edge), the same with
                    # named temporaries written out, and the truth value of X for `X == 0`,
                    # `X != nullptr`, `flag == true` (Fn.cond_atoms). refine() must be idempotent.
                    s2 = refine(cond, idx == 0, s, b)
                    if s2 is None:
                        continue
                    dead = False
                    for a, p, _ in fn.cond_atoms(cond, idx == 0, b)[1:]:
                        s2 = refine(a, p, s2, b)
                        if s2 is None:
                            dead = True
                            break
                    if dead:
                        continue
                push(sb, s2, k)
        if extra_edges and b in extra_edges:
            for sb in extra_edges[b]:
                for s in states:
                    push(sb, s, k)
    return vios, {"state_block_pairs": len(seen), "steps": steps}
