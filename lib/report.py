"""Obligations, known findings, evidence and exit codes shared by all property checks."""
import json
import os
import sys
import time

from .facts import short_loc

VERIF = os.path.dirname(os.path.dirname(os.path.abspath(__file__)))


class Broken(Exception):
    """analysis broken / inconclusive: exit 2 (never a pass, never a violation)."""


def known_names(F):
    """Every class, field and function name the parsed program defines or calls."""
    if getattr(F, "_known_names", None) is None:
        k = set()
        for r in F.records.values():
            q = r.get("qname")
            k.add(q)
            k.add(r.get("inst"))
            for f in r.get("fields", []):
                k.add("%s::%s" % (q, f.get("name")))
        for fn in F.fns:
            k.add(fn.qname)
            if fn.cls:
                k.add(fn.cls)
            for _, ev in fn.all_nodes():
                c = ev.get("callee")
                if c:
                    k.add(c)
                if ev.get("cls"):
                    k.add(ev["cls"])
                if ev.get("field"):        # member accesses and constructor initialisers (covers
                    k.add(ev["field"])     # members of anonymous unions, which records do not list)
                if ev.get("k") == "var" and ev.get("qname"):
                    k.add(ev["qname"])
        for w in F.witnesses:
            k.add(w)
        F._known_names = k
    return F._known_names


def scope_prefixes(mod):
    """The classes / namespaces a rule module is about: its qualified-name literals and their parents."""
    import inspect
    import re as _re
    srcs = [inspect.getsource(mod)]
    for extra in getattr(mod, "ANCHOR_SOURCES", []):
        with open(os.path.join(VERIF, extra)) as fh:
            srcs.append(fh.read())
    pre = set()
    for src in srcs:
        for m in _re.finditer(r"[\"']((?:dispenso)::[A-Za-z_0-9:]+)", src):
            q = m.group(1).rstrip(":")
            pre.add(q)
            if q.count("::") >= 2:
                pre.add(q.rsplit("::", 1)[0])
    pre.discard("dispenso")
    pre.discard("dispenso::detail")
    return sorted(pre)


def known_field_names(F, prefixes=None):
    """Field names (record layouts and member accesses) in the part of the program under `prefixes`."""
    def inscope(q):
        return not prefixes or any(q == p or q.startswith(p + "::") or q.startswith(p + "<") for p in prefixes)
    k = set()
    for r in F.records.values():
        if inscope(r.get("qname") or ""):
            for f in r.get("fields", []):
                k.add(f.get("name"))
    for fn in F.fns:
        if not (inscope(fn.root_parent().qname) or inscope(fn.qname)):
            continue
        for _, nd in fn.all_nodes():
            if nd.get("fname"):
                k.add(nd["fname"])
    k.discard(None)
    return k


def known_short_names(F, prefixes=None):
    """Unqualified identifiers (fields, functions, classes, parameters, locals, constants) that occur in
    the part of the parsed program a rule module is about (functions and records under `prefixes`;
    the whole program if none)."""
    cache = getattr(F, "_known_short", None)
    if cache is None:
        cache = F._known_short = {}
    key = tuple(prefixes or ())
    if key in cache:
        return cache[key]
    def inscope(q):
        return not prefixes or any(q == p or q.startswith(p + "::") or q.startswith(p + "<") for p in prefixes)
    k = set()
    for r in F.records.values():
        if inscope(r.get("qname") or ""):
            k.add((r.get("qname") or "").rsplit("::", 1)[-1])
            for f in r.get("fields", []):
                k.add(f.get("name"))
    for fn in F.fns:
        rq = fn.root_parent().qname
        if not (inscope(rq) or inscope(fn.qname)):
            continue
        k.add(rq.rsplit("::", 1)[-1])
        for prm in fn.params:
            k.add(prm.get("name"))
        for _, nd in fn.all_nodes():
            if nd.get("name"):
                k.add(nd["name"])
            if nd.get("fname"):
                k.add(nd["fname"])
            c = nd.get("callee")
            if c:
                k.add(c.rsplit("::", 1)[-1])
            for cp in nd.get("captures", []) or []:
                k.add(cp.get("name"))
    k.discard(None)
    cache[key] = k
    return k


def module_literals(mod):
    import inspect
    import re as _re
    srcs = [inspect.getsource(mod)]
    for extra in getattr(mod, "ANCHOR_SOURCES", []):
        with open(os.path.join(VERIF, extra)) as fh:
            srcs.append(fh.read())
    out = set()
    for src in srcs:
        # drop the docstring / comments: only code literals count
        body = _re.sub(r'\"\"\".*?\"\"\"', "", src, flags=_re.S)
        body = _re.sub(r"#.*", "", body)
        # literals used as keys of the fact dictionaries (e.get("name"), ev["args"], "loop" in e) are the
        # rule language's own vocabulary, not program identifiers
        body = _re.sub(r"(?:\.get\(|\[)\s*[\"'][A-Za-z_][A-Za-z_0-9]*[\"']", "", body)
        body = _re.sub(r"[\"'][A-Za-z_][A-Za-z_0-9]*[\"']\s+(?:not\s+)?in\s+(?:e|ev|nd|node|x|blk|t|c|o|a|l|r)\b", "", body)
        body = _re.sub(r"\.get\(\s*[\"']k[\"']\s*\)\s*(?:==|!=|in)\s*(?:\([^)]*\)|[\"'][A-Za-z_]+[\"'])", "", body)
        for m in _re.finditer(r"[\"']([A-Za-z_][A-Za-z_0-9]{2,})[\"']", body):
            out.add(m.group(1))
    # words of the fact language / of the rules' own state machines that also happen to be identifiers
    return out - {"this", "param", "local", "index", "other", "ptr", "size", "global", "tls", "staticmember", "staticlocal", "call", "decl", "bin",
                  "var", "member", "init", "return", "new", "lambda", "construct", "cast", "cond", "null", "int", "throw", "name", "type", "base", "args",
                  "kind", "loop", "move", "forward", "get", "count", "begin", "end", "data", "value", "first", "second", "empty", "back", "swap"}


def missing_short_anchors(mod, F):
    """Identifiers (field, function, parameter, constant names) that the rule module matched on the
    tree its instances were confirmed on (frozen in props/anchors.json by tools/gen_anchors.py) and
    that no longer occur anywhere in the parsed program: a rename. Same consequence as a lost
    qualified name: exit 2, no VIOLATION."""
    pid = mod.__name__.rsplit(".", 1)[-1]
    ap = os.path.join(VERIF, "props", "anchors.json")
    if not os.path.exists(ap):
        return []
    with open(ap) as fh:
        frozen = json.load(fh).get(pid, [])
    known = known_field_names(F, scope_prefixes(mod))
    return sorted(n for n in frozen if n not in known)


def missing_anchors(mod, F):
    """The qualified names a rule module is written against ("dispenso::...") that no longer exist in
    the parsed program. A rule whose vocabulary has vanished (a renamed field or function) can
    neither pass nor fail: the check reports analysis-broken (exit 2) and prints no VIOLATION."""
    import inspect
    import re as _re
    srcs = [inspect.getsource(mod)]
    for extra in getattr(mod, "ANCHOR_SOURCES", []):
        with open(os.path.join(VERIF, extra)) as fh:
            srcs.append(fh.read())
    lits = set()
    for src in srcs:
        body = src
        for m in _re.finditer(r"[\"']((?:dispenso|dsa_driver)::[A-Za-z_0-9:]+(?:::\((?:ctor|dtor)\))?)[\"']", body):
            lits.add(m.group(1))
    optional = set(getattr(mod, "OPTIONAL_ANCHORS", ()))
    known = known_names(F)
    out = []
    for lit in sorted(lits):
        if lit in optional or lit in known or lit.endswith("::"):
            continue
        # a namespace / class / name prefix used with startswith()
        if any(k and k.startswith(lit) for k in known):
            continue
        out.append(lit)
    return out


class Run:
    def __init__(self, pid, tier, F, info, mod):
        self.pid = pid
        self.tier = tier
        self.F = F
        self.info = info
        self.mod = mod
        self.obs = []
        self.broken = []
        self.notes = []
        self.t0 = time.time()
        self.paths_enumerated = 0
        self.fn_seen = set()
        self._seen_keys = set()

    # ------------------------------------------------------------------------------------------
    def ob(self, inst, fn, site, ok, detail="", sitekey=None, why=None, path=None, rule=None):
        """Record one obligation: rule instance `inst` at `site` (a loc string or event) in `fn`."""
        loc = site.get("loc") if isinstance(site, dict) else site
        if isinstance(site, dict) and not loc:
            loc = fn.loc if fn is not None else ""
        fq = fn.qname if fn is not None else "-"
        root = fn.root_parent().qname if fn is not None else "-"
        o = {
            "instance": inst,
            "rule": rule or inst.split(".")[1] if "." in inst else inst,
            "function": fn.display if fn is not None else "-",
            "function_qname": fq,
            "root_function": root,
            "pattern": short_loc(fn.ploc) if fn is not None else "-",
            "site": short_loc(loc) if loc else "-",
            "sitekey": sitekey or "",
            "status": "discharged" if ok else "violated",
            "detail": detail,
        }
        if why:
            o["why"] = why
        if path:
            o["path"] = path
        # de-duplicate by template pattern: one report per (instance, pattern, site, status)
        k = (inst, o["pattern"], o["site"], o["sitekey"], o["status"])
        if fn is not None:
            self.fn_seen.add(fn.pattern_key)
        if k in self._seen_keys:
            for p in self.obs:
                if (p["instance"], p["pattern"], p["site"], p["sitekey"], p["status"]) == k:
                    p["instantiations"] = p.get("instantiations", 1) + 1
                    break
            return ok
        self._seen_keys.add(k)
        o["instantiations"] = 1
        self.obs.append(o)
        return ok

    def need(self, inst, found, minimum, what):
        """anti-vacuity: fewer matching sites than confirmed by hand = analysis broken."""
        if found < minimum:
            self.broken.append("%s: %s: matched %d site(s), expected at least %d (anchor vanished or "
                               "selector no longer matches; fix the rule instance, this is neither a "
                               "pass nor a violation)" % (inst, what, found, minimum))
            return False
        return True

    def inconclusive(self, inst, msg):
        self.broken.append("%s: inconclusive: %s" % (inst, msg))

    def note(self, s):
        self.notes.append(s)

    # ------------------------------------------------------------------------------------------
    def known_key(self, o):
        return (o["instance"], o["root_function"], o["sitekey"])

    def finish(self, only=None):
        pid = self.pid
        kf_path = os.path.join(VERIF, "known_findings.json")
        known = []
        if os.path.exists(kf_path):
            with open(kf_path) as fh:
                known = [k for k in json.load(fh).get("findings", []) if k.get("property") == pid]
        viol = [o for o in self.obs if o["status"] == "violated"]
        if only is not None:
            viol = [o for o in viol if self.known_key(o) == tuple(only)]
        reported_known = []
        new = []
        for o in viol:
            kk = self.known_key(o)
            m = [k for k in known if k.get("status") == "known" and tuple(k["key"]) == kk]
            if m:
                o["status"] = "known-finding"
                if m[0] not in reported_known:
                    reported_known.append(m[0])
            else:
                new.append(o)
        lost = getattr(self, "anchor_lost", None)
        if lost:
            # the vocabulary the rules are written in is gone (renamed / removed definitions): whatever
            # the rules concluded is unreliable -- neither a pass nor a violation
            self.broken.insert(0, "the rule module refers to names that the parsed program no longer defines or calls: %s (renamed or removed? update props/%s.py); %d would-be violation(s) suppressed as unreliable"
                               % (", ".join(lost[:8]), pid, len(new)))
            for b in self.broken:
                print("ANALYSIS-BROKEN property=%s %s" % (pid, b))
            for o in new:
                o["status"] = "unreliable"
            self.write_evidence([], reported_known)
            return 2
        for k in reported_known:
            print("KNOWN-FINDING: property=%s %s" % (pid, k["what"]))
        rdir = os.environ.get("DSA_REPLAY_DIR") or os.path.join("out", "replay")
        os.makedirs(os.path.join(VERIF, rdir), exist_ok=True)
        for n, o in enumerate(new, 1):
            rp = os.path.join(rdir, "%s-%d.json" % (pid, n))
            with open(os.path.join(VERIF, rp), "w") as fh:
                json.dump({"property": pid, "key": list(self.known_key(o)), "obligation": o}, fh, indent=1)
            print("VIOLATION property=%s replay=%s" % (pid, rp))
            print("  rule %s: %s" % (o["instance"], o.get("why", "")))
            print("  at %s in %s [%s]" % (o["site"], o["function"], o["sitekey"]))
            print("  key %s" % json.dumps(list(self.known_key(o))))
            print("  %s" % o["detail"])
            if o.get("path"):
                print("  path: %s" % o["path"])
        for b in self.broken:
            print("ANALYSIS-BROKEN property=%s %s" % (pid, b))
        self.write_evidence(new, reported_known)
        # a definite violation is reported as such even if another rule instance lost its anchor
        if new:
            return 1
        if self.broken:
            return 2
        return 0

    def write_evidence(self, new, reported_known):
        mod = self.mod
        obs = self.obs
        n_ob = len(obs)
        n_dis = sum(1 for o in obs if o["status"] == "discharged")
        distinct = len({(o["instance"], o["pattern"], o["site"], o["sitekey"]) for o in obs})
        samples = []
        seen_inst = set()
        for o in obs:
            if o["instance"] in seen_inst and len(samples) >= 6:
                continue
            seen_inst.add(o["instance"])
            samples.append({k: o[k] for k in ("instance", "function", "site", "sitekey", "status", "detail") if k in o})
            if len(samples) >= 14:
                break
        cov = {
            "explanation": getattr(mod, "EXPLANATION", "").strip() or "structural rule instances over the clang CFG of every in-scope function instantiation",
            "obligations": n_ob,
            "discharged": n_dis,
            "evaluations": max(n_ob, 0),
            "distinct_nontrivial": distinct,
            "rule": "one obligation per (rule instance x function template pattern x site); distinct = distinct such triples whose scope and site selectors matched real code; instantiations that agree are folded into one",
            "samples": samples or [{"note": "no obligation matched"}],
            "checker_cmd": "./check %s%s" % (self.pid, " --tier thorough" if self.tier == "thorough" else ""),
            "trusted_base": ["clang 14 front end (AST, CFG construction, constant evaluator)", "build/dsa extractor", "lib/facts.py graph queries", "the rule instances in props/%s.py" % self.pid],
            "units_parsed": self.info.get("units_parsed"),
            "units": sorted({u.split(":", 1)[1] for u in self.info.get("unit_list", [])}),
            "configs": sorted({u.split(":", 1)[0] for u in self.info.get("unit_list", [])}),
            "functions_in_scope": self.info.get("functions"),
            "inlined_single_use_helpers": sorted({"%s <- %s" % (a, b) for a, b in self.info.get("inlined_single_use_helpers", [])}),
            "function_patterns_with_obligations": len(self.fn_seen),
            "rule_instances": sorted({o["instance"] for o in obs}),
            "by_instance": {i: sum(o.get("instantiations", 1) for o in obs if o["instance"] == i) for i in sorted({o["instance"] for o in obs})},
            "paths_enumerated": self.paths_enumerated,
            "not_decided": getattr(mod, "NOT_DECIDED", []),
            "known_findings_reported": [k["what"] for k in reported_known],
            "violations": [{k: o[k] for k in ("instance", "function", "site", "sitekey", "detail")} for o in new],
            "analysis_broken": self.broken,
            "notes": self.notes,
            "tree_key": self.info.get("tree_key"),
            "exhaustive": True,
        }
        ev = {
            "property_id": self.pid,
            "tier": self.tier,
            "seed": int(os.environ.get("VERIF_SEED", "0") or 0),
            "level": getattr(mod, "LEVEL", "other"),
            "coverage": cov,
            "assumptions": getattr(mod, "ASSUMPTIONS", []) + [
                "exceptional control flow is not in clang's CFG (no EH edges); rules about throwing paths use the lexical try/catch structure",
                "only the Linux/x86-64 preprocessor branches are parsed",
                "third-party moodycamel queues are trusted",
            ],
            "wall_s": round(time.time() - self.t0 + self.info.get("extract_s", 0), 3),
            "violations": len(new),
        }
        evdir = os.environ.get("DSA_EVIDENCE_DIR") or os.path.join(VERIF, "evidence")
        os.makedirs(evdir, exist_ok=True)
        with open(os.path.join(evdir, self.pid + ".json"), "w") as fh:
            json.dump(ev, fh, indent=1, sort_keys=False)
