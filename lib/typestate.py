"""K5 LINEAR: path-sensitive ownership typestate for task objects (dispenso::OnceFunction values and the
functor parameters of scheduling entry points).

OnceFunction has no destructor for its payload: a value that is neither invoked, nor
cleanupNotRun(), nor moved into a new owner is a lost task and a leak; one consumed twice is a double
run. States per tracked variable: U (holds nothing), O (owns a task), C (consumed).

  sources      construction from a functor / call result (O); conditional sources try_pop(v),
               try_dequeue*(..., v): O on the true edge only (also through `bool b = q.try_dequeue(v)`).
  consumers    v() ; v.cleanupNotRun() ; std::move(v)/std::forward<F>(v) handed to a call, a
               constructor, a lambda init-capture or an assignment (new owner); conditional sinks
               try_push/try_emplace(std::move(v)): consumed on the true edge only.
  violations   consume while C or U (double run / run of nothing), overwrite or re-declare while O,
               function exit while O (dropped task) -- except on paths that passed the branch
               'canceled() is true' (dropping is what cancellation means; the payload clause of
               C11/C29 is checked separately).
"""
import re

from . import dataflow
from .facts import Pos, const_val, expr_str, is_call, normalize_cond, strip_casts, strip_move, subexprs

COND_SINKS = re.compile(r"::(try_push|try_emplace|try_enqueue)$")
COND_SOURCES = re.compile(r"::(try_pop|try_dequeue|try_dequeue_from_producer|try_pop_into|try_steal)$")
MOVE_FNS = ("std::move", "std::forward")


def _is_move_of(n):
    """n is std::move(x)/std::forward<T>(x)/static_cast<T&&>(x) where x is a plain variable -> var node."""
    if not isinstance(n, dict):
        return None
    if n.get("k") == "call" and n.get("callee") in MOVE_FNS and n.get("args"):
        x = strip_casts(n["args"][0])
        if isinstance(x, dict) and x.get("k") == "var":
            return x
    if n.get("k") == "cast" and n.get("to", "").endswith("&&"):
        x = strip_casts(n.get("e"))
        if isinstance(x, dict) and x.get("k") == "var":
            return x
    return None


def _direct_children(n):
    for key in ("args", "kids", "placement"):
        for a in n.get(key, []) or []:
            yield a
    for key in ("obj", "init", "e", "l", "r", "c", "t", "f", "base", "idx", "fn"):
        if isinstance(n.get(key), dict):
            yield n[key]
    for c in n.get("captures", []) or []:
        if isinstance(c.get("init"), dict):
            yield c["init"]


class Linear:
    def __init__(self, F, fn, tracked, allow_drop_when_cancelled=True, by_ref_params=(), disposers=()):
        """tracked: {vid: name}."""
        self.F = F
        self.fn = fn
        self.tracked = dict(tracked)
        self.allow_drop = allow_drop_when_cancelled
        self.byref = set(by_ref_params)
        self.disposers = set(disposers)
        self.actions = {}      # event sid -> [(vid, kind)] kind in consume|cond_sink
        self.sources = {}      # event sid -> vid   (conditional source call)
        self.bool_of = {}      # bool var vid -> ('src'|'sink', tracked vid, call sid)
        self._scan()

    # ---- static pre-scan: which event consumes which variable --------------------------------
    def _scan(self):
        fn = self.fn
        tv = self.tracked
        for pos, ev in fn.events():
            k = ev.get("k")
            if k not in ("call", "construct", "lambda", "decl", "bin", "return", "new"):
                continue
            self._scan_node(ev, ev, top=True)

    def _scan_node(self, owner_ev, n, top=False):
        """owner_ev: nearest enclosing call/construct/lambda/decl/assign/return *event node*."""
        if not isinstance(n, dict):
            return
        k = n.get("k")
        new_owner = owner_ev
        if not top and k in ("call", "construct", "lambda", "new"):
            # nested call: it is its own event elsewhere; actions inside belong to it
            if n.get("callee") in MOVE_FNS:
                pass
            else:
                return
        mv = _is_move_of(n)
        if mv is not None and mv.get("vid") in self.tracked and not top:
            kind = "consume"
            if owner_ev.get("k") == "call" and owner_ev.get("callee") and COND_SINKS.search(owner_ev["callee"]):
                kind = "cond_sink"
            self.actions.setdefault(owner_ev["sid"], []).append((mv["vid"], kind))
            return
        if top and k == "call":
            callee = n.get("callee") or ""
            if COND_SOURCES.search(callee):
                for a in n.get("args", []):
                    x = strip_casts(a)
                    if isinstance(x, dict) and x.get("k") == "var" and x.get("vid") in self.tracked:
                        self.sources[n["sid"]] = x["vid"]
        for c in _direct_children(n):
            self._scan_node(owner_ev, c)

    # ---- abstract interpretation -----------------------------------------------------------------
    def _get(self, st, vid):
        return dict(st[0]).get(vid, "U")

    def _set(self, st, vid, val, pending=None, flags=None):
        d = dict(st[0])
        d[vid] = val
        return (tuple(sorted(d.items())), st[1] if pending is None else pending, st[2] if flags is None else flags)

    def init_state(self, owned_params=()):
        d = {}
        for vid in self.tracked:
            d[vid] = "U"
        for vid in owned_params:
            d[vid] = "O"
        return (tuple(sorted(d.items())), (), ())

    def transfer(self, pos, ev, st):
        k = ev.get("k")
        name = lambda vid: self.tracked.get(vid, "?")
        # declarations of tracked variables
        if k == "decl" and ev.get("vid") in self.tracked:
            vid = ev["vid"]
            if self._get(st, vid) == "O":
                raise dataflow.Violation("'%s' goes out of scope / is re-declared while it still owns a task (dropped: never run, never cleaned up)" % name(vid))
            init = ev.get("init")
            owned = False
            if isinstance(init, dict):
                i2 = strip_casts(init)
                if i2.get("k") == "construct" and not i2.get("args"):
                    owned = False
                elif i2.get("k") == "construct" and i2.get("args") is not None:
                    owned = True
                elif i2.get("k") in ("call", "lambda", "initlist"):
                    owned = True
            st = self._set(st, vid, "O" if owned else "U")
            # fallthrough: the initialiser may consume other tracked vars
        # bool b = <conditional source/sink on v>
        if k == "decl" and isinstance(ev.get("init"), dict):
            i2 = strip_casts(ev["init"])
            if i2.get("k") == "call" and i2.get("sid") in self.sources:
                pend = tuple(p for p in st[1] if p[0] != ev["vid"]) + ((ev["vid"], "src", self.sources[i2["sid"]]),)
                st = (st[0], pend, st[2])
            elif i2.get("k") == "call" and any(kind == "cond_sink" for _, kind in self.actions.get(i2.get("sid"), [])):
                v = [vid for vid, kind in self.actions[i2["sid"]] if kind == "cond_sink"][0]
                pend = tuple(p for p in st[1] if p[0] != ev["vid"]) + ((ev["vid"], "sink", v),)
                st = (st[0], pend, st[2])
        if k == "bin" and ev.get("op") == "=":
            l = strip_casts(ev.get("l"))
            r = strip_casts(ev.get("r"))
            if isinstance(l, dict) and l.get("k") == "var" and isinstance(r, dict) and r.get("k") == "call":
                if r.get("sid") in self.sources:
                    pend = tuple(p for p in st[1] if p[0] != l["vid"]) + ((l["vid"], "src", self.sources[r["sid"]]),)
                    st = (st[0], pend, st[2])
        # conditional source call: overwriting an owned task
        if k == "call" and ev.get("sid") in self.sources:
            vid = self.sources[ev["sid"]]
            if self._get(st, vid) == "O":
                raise dataflow.Violation("'%s' is overwritten by %s while it still owns a task" % (name(vid), ev.get("name")))
            return st
        # invocation / cleanup
        if k == "call" and ev.get("obj") is not None:
            o = strip_move(ev.get("obj"))
            if isinstance(o, dict) and o.get("k") == "var" and o.get("vid") in self.tracked:
                vid = o["vid"]
                if ev.get("opcall") == "()" or ev.get("name") == "cleanupNotRun":
                    cur = self._get(st, vid)
                    what = "invoked" if ev.get("opcall") == "()" else "cleaned up"
                    if cur == "C":
                        raise dataflow.Violation("'%s' is %s after it was already consumed (double run / use after move)" % (name(vid), what))
                    if cur == "U":
                        raise dataflow.Violation("'%s' is %s while it holds no task" % (name(vid), what))
                    return self._set(st, vid, "C")
        # passing the task by lvalue reference to a function that disposes of it on every path
        if k == "call" and self.disposers and ev.get("callee") in self.disposers:
            for a in ev.get("args", []):
                x = strip_casts(a)
                if isinstance(x, dict) and x.get("k") == "var" and x.get("vid") in self.tracked:
                    vid = x["vid"]
                    cur = self._get(st, vid)
                    if cur == "C":
                        raise dataflow.Violation("'%s' is disposed of after it was already consumed" % name(vid))
                    st = self._set(st, vid, "C")
        # assignment to a tracked variable: v = <new value>
        if k in ("call", "bin") and (ev.get("opcall") == "=" or (k == "bin" and ev.get("op") == "=")):
            tgt = strip_casts(ev.get("obj") if k == "call" else ev.get("l"))
            if isinstance(tgt, dict) and tgt.get("k") == "var" and tgt.get("vid") in self.tracked:
                vid = tgt["vid"]
                if self._get(st, vid) == "O":
                    raise dataflow.Violation("'%s' is assigned a new task while it still owns one" % name(vid))
                st = self._set(st, vid, "O")
        # moves into a new owner
        for vid, kind in self.actions.get(ev.get("sid"), []):
            cur = self._get(st, vid)
            if cur == "C":
                raise dataflow.Violation("'%s' is moved from after it was already consumed (double hand-over)" % name(vid))
            if cur == "U" and vid not in self.byref:
                raise dataflow.Violation("'%s' is handed over while it holds no task" % name(vid))
            if kind == "consume":
                st = self._set(st, vid, "C")
            else:
                pend = tuple(p for p in st[1] if not (p[1] == "sinkcall" and p[2] == vid)) + ((ev["sid"], "sinkcall", vid),)
                st = (st[0], pend, st[2])
        return st

    def refine(self, cond, pol, st, b):
        a, p = normalize_cond(cond, pol)
        parts = []

        def split(c, q):
            c, q = normalize_cond(c, q)
            if isinstance(c, dict) and c.get("k") == "bin" and ((c.get("op") == "&&" and q) or (c.get("op") == "||" and not q)):
                split(c.get("l"), q)
                split(c.get("r"), q)
            else:
                parts.append((c, q))
        split(a, p)
        for c, q in parts:
            c = strip_casts(c)
            if not isinstance(c, dict):
                continue
            # direct conditional source / sink call in the condition
            if c.get("k") == "call" and c.get("sid") in self.sources:
                vid = self.sources[c["sid"]]
                if q:
                    st = self._set(st, vid, "O")
                continue
            if c.get("k") == "call":
                acts = [(vid, kind) for vid, kind in self.actions.get(c.get("sid"), []) if kind == "cond_sink"]
                for vid, _ in acts:
                    if q:
                        st = self._set(st, vid, "C")
                    st = (st[0], tuple(x for x in st[1] if not (x[1] == "sinkcall" and x[2] == vid)), st[2])
                if acts:
                    continue
                if c.get("name") in ("canceled",) and q and self.allow_drop:
                    st = (st[0], st[1], tuple(sorted(set(st[2]) | {"cancelled"})))
                    continue
            if c.get("k") == "var":
                for pend in st[1]:
                    if pend[0] == c.get("vid"):
                        if pend[1] == "src" and q:
                            st = self._set(st, pend[2], "O")
                        if pend[1] == "sink" and q:
                            st = self._set(st, pend[2], "C")
        return st

    def at_exit(self, st):
        if "cancelled" in st[2]:
            return None
        bad = [self.tracked[v] for v, s in st[0] if s == "O" and v in self.tracked]
        if bad:
            return "function exit while %s still own(s) a task (never run, never handed on, never cleaned up)" % ", ".join("'%s'" % b for b in bad)
        return None

    def run(self, owned_params=()):
        vios, stats = dataflow.run(self.fn, self.init_state(owned_params), self.transfer, self.refine, self.at_exit)
        return vios, stats


def once_function_vars(fn):
    """locals and by-value params of type dispenso::OnceFunction: {vid: name}, [owned param vids]."""
    tracked = {}
    owned = []
    for p in fn.params:
        t = p.get("ctype", p.get("type", ""))
        if t in ("dispenso::OnceFunction", "OnceFunction"):
            tracked[p["vid"]] = p["name"]
            owned.append(p["vid"])
    for pos, ev in fn.events():
        if ev.get("k") == "decl" and ev.get("ctype", ev.get("type")) in ("dispenso::OnceFunction", "OnceFunction"):
            tracked[ev["vid"]] = ev["name"]
    return tracked, owned


def functor_params(fn, forwarders=()):
    """Forwarding-reference / rvalue-reference parameters that are invoked or forwarded in fn:
    {vid: name} (the functor a scheduling entry point is handed)."""
    out = {}
    cand = {p["vid"]: p for p in fn.params if p.get("type", "").endswith("&&")}
    if not cand:
        return out
    generators = set()
    for pos, n in fn.all_nodes():
        if n.get("k") == "call":
            if n.get("opcall") == "()":
                o = strip_move(n.get("obj"))
                if isinstance(o, dict) and o.get("k") == "var" and o.get("vid") in cand:
                    if n.get("type") != "void":
                        generators.add(o["vid"])   # gen(i): called many times, yields the tasks
                        continue
                    out[o["vid"]] = cand[o["vid"]]["name"]
            mv = _is_move_of(n)
            if mv is not None and mv.get("vid") in cand and fn.qname.split("::")[-1] in forwarders:
                out[mv["vid"]] = cand[mv["vid"]]["name"]
    for g in generators:
        out.pop(g, None)
    # a parameter that is only ever forwarded as a generator (never invoked here) is recognised by
    # its callee doing the same; keep it simple: parameters named like generators are not tasks
    return {v: n for v, n in out.items() if v not in generators}


def disposer_functions(F):
    """Qualified names of functions taking a 'OnceFunction &' that consume it (run or cleanupNotRun)
    on every path: passing a task to one of them by reference disposes of it."""
    out = set()
    for fn in F.fns:
        ps = [p for p in fn.params if p.get("ctype", p.get("type", "")).replace("dispenso::", "") in ("OnceFunction &",)]
        if len(ps) != 1:
            continue
        tr = {ps[0]["vid"]: ps[0]["name"]}
        L = Linear(F, fn, tr, allow_drop_when_cancelled=False, by_ref_params=tr.keys())
        vios, _ = L.run(owned_params=list(tr.keys()))
        if not vios:
            out.add(fn.qname)
    return out
