"""Reusable pieces of the rule kinds (DESIGN.md section 3) on top of lib/facts.py."""
import re

from .facts import (Pos, const_val, expr_str, is_call, normalize_cond, order_at_least, short_loc,
                    strip_casts, strip_move, subexprs)

CMP_OPS = ("==", "!=", "<", ">", "<=", ">=")
FLIP = {"==": "==", "!=": "!=", "<": ">", ">": "<", "<=": ">=", ">=": "<="}
NEG = {"==": "!=", "!=": "==", "<": ">=", ">": "<=", "<=": ">", ">=": "<"}


# ---------------------------------------------------------------------------------------------
# lvalue paths: which field / variable does an expression denote
# ---------------------------------------------------------------------------------------------
def accessor_field(F, fn, call, depth=2):
    """If `call` invokes a method whose every return is (a reference to / the address of) one field
    of *this, return that field's qualified name (accessor summary, depth-bounded)."""
    if depth <= 0:
        return None
    callee = F.callee_fn(fn, call)
    if callee is None:
        return None
    rets = [ev for _, ev in callee.events() if ev.get("k") == "return"]
    if not rets:
        return None
    fields = set()
    for r in rets:
        p = lvalue_path(F, callee, r.get("e"), depth - 1)
        if p is None or not p.startswith("field:"):
            return None
        fields.add(p)
    if len(fields) == 1:
        return fields.pop()
    return None


def decl_inits(fn):
    """{vid: init expr} of the local declarations of fn (cached)."""
    d = getattr(fn, "_decl_inits", None)
    if d is None:
        d = {}
        for pos, ev in fn.events(include_dead=True):
            if ev.get("k") == "decl" and ev.get("init") is not None:
                d[ev["vid"]] = ev["init"]
        fn._decl_inits = d
    return d


def single_def_value(fn, var):
    """If local `var` is defined exactly once (its declaration), the initialiser; else None."""
    var = strip_casts(var)
    if not (isinstance(var, dict) and var.get("k") == "var"):
        return None
    defs = local_defs(fn, var["vid"])
    if len(defs) == 1 and defs[0][2] == "decl":
        return defs[0][1]
    return None


def lvalue_path(F, fn, e, depth=3):
    """'field:Class::name', 'field:Class::name[]', 'var:<vid>:name', 'global:qname', or None."""
    e = strip_move(e)
    if not isinstance(e, dict):
        return None
    k = e.get("k")
    if k == "member":
        return "field:" + e["field"]
    if k == "var":
        if e.get("vk") in ("global", "tls", "staticmember", "staticlocal"):
            return "global:" + e.get("qname", e.get("name"))
        if e.get("isref") and e.get("vk") == "local" and depth > 0:
            # a local reference is an alias of what it was bound to
            init = decl_inits(fn).get(e.get("vid"))
            if init is not None:
                r = lvalue_path(F, fn, init, depth - 1)
                if r is not None:
                    return r
        return "var:%s:%s" % (e.get("vid"), e.get("name"))
    if k == "index":
        b = lvalue_path(F, fn, e.get("base"), depth)
        return b + "[]" if b else None
    if k == "un" and e.get("op") in ("*", "&"):
        return lvalue_path(F, fn, e.get("e"), depth)
    if k == "call":
        if e.get("opcall") == "[]" or e.get("name") in ("operator[]", "at"):
            b = lvalue_path(F, fn, e.get("obj"), depth)
            return b + "[]" if b else None
        if e.get("opcall") in ("*", "->") or e.get("name") in ("get", "operator->", "operator*"):
            return lvalue_path(F, fn, e.get("obj"), depth)
        if e.get("obj") is not None and not e.get("args"):
            a = accessor_field(F, fn, e, depth)
            if a:
                return a
    return None


def field_name(path):
    """'field:dispenso::X::f[]' -> 'dispenso::X::f'"""
    if path is None:
        return None
    p = path.split(":", 1)[1] if path.startswith(("field:", "global:")) else path
    return p.replace("[]", "")


# ---------------------------------------------------------------------------------------------
# atomic operations
# ---------------------------------------------------------------------------------------------
READ_OPS = ("load", "operator(conv)")
WRITE_OPS = ("store", "operator=")
RMW_OPS = ("exchange", "fetch_add", "fetch_sub", "fetch_or", "fetch_and", "fetch_xor", "compare_exchange_weak",
           "compare_exchange_strong", "operator++", "operator--", "operator+=", "operator-=", "operator|=",
           "operator&=", "operator^=", "test_and_set")


class AtomicOp:
    def __init__(self, fn, pos, node, path):
        self.fn = fn
        self.pos = pos
        self.node = node
        self.op = node["atomic"]["op"]
        self.orders = node["atomic"]["orders"]
        self.path = path
        self.field = field_name(path)
        self.loc = node.get("loc")

    @property
    def is_read(self):
        return self.op in READ_OPS or self.op in RMW_OPS

    @property
    def is_write(self):
        return self.op in WRITE_OPS or self.op in RMW_OPS

    @property
    def is_rmw(self):
        return self.op in RMW_OPS

    @property
    def success_order(self):
        return self.orders[0] if self.orders else "seq_cst"

    def __repr__(self):
        return "%s.%s(%s)" % (self.field, self.op, ",".join(self.orders))


def atomic_ops(F, fn):
    """Every atomic operation in fn (each expression node once), with the resolved object path."""
    out = []
    for pos, n in fn.all_nodes():
        if n.get("k") == "call" and "atomic" in n:
            if n["atomic"]["op"] == "fence":
                out.append(AtomicOp(fn, pos, n, None))
                continue
            path = lvalue_path(F, fn, n.get("obj"))
            out.append(AtomicOp(fn, pos, n, path))
    # the position of a nested node is the position of the first event containing it; make it exact:
    # the node's own top-level event (same sid) if it exists
    sid_pos = {ev.get("sid"): pos for pos, ev in fn.events() if isinstance(ev, dict)}
    for a in out:
        p = sid_pos.get(a.node.get("sid"))
        if p is not None:
            a.pos = p
        a.loc = a.node.get("loc") or (fn.event_at(a.pos) or {}).get("loc") or fn.loc
    return out


def event_pos_of(fn, node):
    """Position of the top-level event whose sid equals node's sid (calls are always events)."""
    sid = node.get("sid")
    for pos, ev in fn.events():
        if ev.get("sid") == sid:
            return pos
    return None


# ---------------------------------------------------------------------------------------------
# comparisons in guards
# ---------------------------------------------------------------------------------------------
def contains_sid(e, sid):
    return any(n.get("sid") == sid for n in subexprs(e))


def same_value(a, b, fn=None):
    """structural equality of two small expressions: same constant, or same variable / field.
    With fn, named temporaries are written out first (`amount` == `static_cast<int>(n)` after
    `const int amount = static_cast<int>(n);`)."""
    if fn is not None:
        if same_value(a, b):
            return True
        a, b = fn.expand_expr(a), fn.expand_expr(b)
    a, b = strip_casts(strip_move(a)), strip_casts(strip_move(b))
    if isinstance(a, dict) and isinstance(b, dict) and a.get("sid") is not None and a.get("sid") == b.get("sid"):
        return True     # the very same evaluation
    if not isinstance(a, dict) or not isinstance(b, dict):
        return False
    ca, cb = const_val(a), const_val(b)
    if ca is not None or cb is not None:
        return ca is not None and ca == cb
    if a.get("k") != b.get("k"):
        return False
    if a.get("k") == "var":
        return a.get("vid") == b.get("vid")
    if a.get("k") == "member":
        return a.get("field") == b.get("field") and same_value(a.get("base"), b.get("base"))
    if a.get("k") == "this":
        return True
    if a.get("k") == "un":
        return a.get("op") == b.get("op") and same_value(a.get("e"), b.get("e"))
    if a.get("k") == "bin":
        return a.get("op") == b.get("op") and same_value(a.get("l"), b.get("l")) and same_value(a.get("r"), b.get("r"))
    return False


def unwrap_assign(e):
    """(x = v) used as a value -> v ; also returns the assigned variable."""
    e = strip_casts(e)
    if isinstance(e, dict) and e.get("k") == "bin" and e.get("op") == "=":
        return strip_casts(e.get("r")), e.get("l")
    return e, None


def comparison_of(atom, pol, pred):
    """If guard atom (with polarity) is a comparison one side of which satisfies pred(expr), return
    (op, other_side_expr, matched_side_expr) normalised so that the matched side is on the left and
    the polarity is folded into op. A bare (non-comparison) atom x is treated as x != 0."""
    a = strip_casts(atom)
    if isinstance(a, dict) and a.get("k") == "bin" and a.get("op") in CMP_OPS:
        l, _ = unwrap_assign(a.get("l"))
        r, _ = unwrap_assign(a.get("r"))
        op = a["op"]
        if pred(l):
            side, other = l, r
        elif pred(r):
            side, other, op = r, l, FLIP[op]
        else:
            return None
        if not pol:
            op = NEG[op]
        return op, other, side
    v, _ = unwrap_assign(a)
    if pred(v):
        return ("!=" if pol else "=="), {"k": "int", "cv": 0}, v
    return None


def guard_comparisons(fn, pos, pred, extra_edges=None):
    out = []
    for atom, pol, b in fn.guard_atoms(pos, extra_edges):
        c = comparison_of(atom, pol, pred)
        if c:
            out.append(c + (b,))
    return out


def is_atomic_node(F, fn, n, field=None, ops=None):
    n = strip_casts(n)
    if not (isinstance(n, dict) and n.get("k") == "call" and "atomic" in n):
        return False
    if ops is not None and n["atomic"]["op"] not in ops:
        return False
    if field is not None:
        p = field_name(lvalue_path(F, fn, n.get("obj")))
        if p != field:
            return False
    return True


def fmt_site(ev):
    return short_loc(ev.get("loc", ""))


# ---------------------------------------------------------------------------------------------
# functor invocations (user bodies) and generic helpers used by several properties
# ---------------------------------------------------------------------------------------------
def functor_root(e):
    """For a call-operator invocation: the variable being invoked, through std::move/forward, derefs
    and one level of generator call (gen(i)()). Returns (var_node, via_generator: bool) or (None, _)."""
    e = strip_move(e)
    via = False
    for _ in range(4):
        if not isinstance(e, dict):
            return None, via
        k = e.get("k")
        if k == "var":
            return e, via
        if k == "un" and e.get("op") == "*":
            e = strip_move(e.get("e"))
            continue
        if k == "call" and e.get("opcall") == "()" and e.get("obj") is not None:
            via = True
            e = strip_move(e.get("obj"))
            continue
        if k == "member":
            return e, via
        return None, via
    return None, via


def body_invocations(fn, var_kinds=("param", "initcapture", "captured", "local")):
    """Call-operator invocations 'f()' / 'gen(i)()' whose callee object is a variable of this
    function (parameter, by-value capture, init-capture) and whose result is void, i.e. the sites
    where a user body / task starts executing. Returns [(pos, ev, var_node, via_generator)]."""
    out = []
    for pos, ev in fn.events():
        if ev.get("k") != "call" or ev.get("opcall") != "()":
            continue
        if ev.get("type") not in ("void",):
            continue
        root, via = functor_root(ev.get("obj"))
        if root is None:
            continue
        if root.get("k") == "var":
            vk = root.get("vk")
            kind = "captured" if root.get("captured") else vk
            if kind in var_kinds or vk in var_kinds:
                out.append((pos, ev, root, via))
        elif root.get("k") == "member" and "member" in var_kinds:
            out.append((pos, ev, root, via))
    return out


def loops_of(fn):
    return {l["id"]: l for l in fn.raw.get("loops", [])}


def loop_chain(fn, lid):
    ls = loops_of(fn)
    out = []
    while lid:
        out.append(lid)
        lid = ls.get(lid, {}).get("parent", 0)
    return out


def guard_in_same_iteration(fn, site_ev, guard_block):
    """True if the branch at guard_block is evaluated in every iteration of the innermost loop that
    lexically contains the site (or the site is in no loop)."""
    sl = site_ev.get("loop")
    if not sl:
        return True
    t = fn.term(guard_block) or {}
    gl = t.get("inloop") or t.get("loop")
    if not gl:
        return False
    return sl in loop_chain(fn, gl)


def callers_of(F, qname_regex):
    """[(caller_fn, pos, ev)] for every call event in scope whose callee matches."""
    rx = re.compile(qname_regex) if isinstance(qname_regex, str) else qname_regex
    out = []
    for fn in F.fns:
        for pos, ev in fn.events():
            if ev.get("k") in ("call", "construct") and ev.get("callee") and rx.search(ev["callee"]):
                out.append((fn, pos, ev))
    return out


# ---------------------------------------------------------------------------------------------
# natural loops
# ---------------------------------------------------------------------------------------------
def natural_loops(fn):
    """[(header, body_blocks:set, back_edge_tails:set)] from back edges t->h where h dominates t."""
    loops = {}
    for b in fn.live_blocks():
        for s in fn.succs(b):
            if fn.block_dominates(s, b):
                loops.setdefault(s, set()).add(b)
    out = []
    preds = fn.preds()
    for h, tails in loops.items():
        body = {h}
        stack = [t for t in tails]
        while stack:
            x = stack.pop()
            if x in body:
                continue
            body.add(x)
            for p in preds.get(x, []):
                if p not in body:
                    stack.append(p)
        out.append((h, body, tails))
    return out


def loop_exit_edges(fn, body):
    """[(from_block, succ_index, to_block)] edges leaving the loop body."""
    out = []
    for b in body:
        for i, s in fn.succ_edges(b):
            if s not in body:
                out.append((b, i, s))
    return out


# ---------------------------------------------------------------------------------------------
# small interval reasoning: lower bounds of integer expressions (K9)
# ---------------------------------------------------------------------------------------------
NONNEG_CALLS = ("numPoolThreads", "numThreads", "size", "capacity", "count")


def lower_bound(F, fn, e, env=None, depth=6):
    """A sound lower bound of integer expression e, or None (unknown). env: {vid: lower bound}.
    Knows constants, casts, std::min/std::max (also the initializer_list form), +, unsigned types,
    accessor facts (thread counts and sizes are >= 0), bool in [0,1], ?: ."""
    if depth <= 0 or not isinstance(e, dict):
        return None
    v = const_val(e)
    if v is not None:
        return v
    k = e.get("k")
    if k == "cast":
        inner = lower_bound(F, fn, e.get("e"), env, depth - 1)
        to = e.get("to", "")
        if inner is None and ("size_t" in to or "unsigned" in to or to.startswith("uint")):
            return 0
        return inner
    if k == "var":
        if env and e.get("vid") in env:
            return env[e["vid"]]
        t = e.get("type", "")
        if t in ("bool", "const bool"):
            return 0
        if "size_t" in t and "ssize_t" not in t or "unsigned" in t or t.startswith("uint"):
            return 0
        return None
    if k == "member":
        t = e.get("type", "")
        if t == "bool":
            return 0
        if ("size_t" in t and "ssize_t" not in t) or "unsigned" in t or t.startswith("uint"):
            return 0
        return None
    if k == "call":
        name = e.get("name")
        callee = e.get("callee") or ""
        if callee in ("std::max", "std::min"):
            args = e.get("args", [])
            if len(args) == 1 and isinstance(args[0], dict) and args[0].get("k") in ("initlist", "construct"):
                args = args[0].get("args", [])
            lbs = [lower_bound(F, fn, a, env, depth - 1) for a in args[:2]] if callee != "std::min" or len(args) <= 2 else [lower_bound(F, fn, a, env, depth - 1) for a in args]
            if callee == "std::max":
                known = [x for x in lbs if x is not None]
                return max(known) if known else None
            if any(x is None for x in lbs):
                return None
            return min(lbs)
        if name in NONNEG_CALLS:
            return 0
        # accessor whose body returns max(1, ...) etc: evaluate returns one level
        cfn = F.callee_fn(fn, e)
        if cfn is not None and depth > 2:
            rets = [ev for _, ev in cfn.events() if ev.get("k") == "return"]
            lbs = [lower_bound(F, cfn, r.get("e"), None, depth - 2) for r in rets]
            if rets and all(x is not None for x in lbs):
                return min(lbs)
        t = e.get("type", "")
        if ("size_t" in t and "ssize_t" not in t) or "unsigned" in t:
            return 0
        return None
    if k == "bin":
        op = e.get("op")
        l = lower_bound(F, fn, e.get("l"), env, depth - 1)
        r = lower_bound(F, fn, e.get("r"), env, depth - 1)
        if op == "+" and l is not None and r is not None:
            return l + r
        if op == "*" and l is not None and r is not None and l >= 0 and r >= 0:
            return l * r
        if op == "/" and l is not None and l >= 0:
            return 0
        return None
    if k == "cond":
        a = lower_bound(F, fn, e.get("t"), env, depth - 1)
        b = lower_bound(F, fn, e.get("f"), env, depth - 1)
        if a is None or b is None:
            return None
        return min(a, b)
    if k == "construct" and len(e.get("args", [])) == 1:
        return lower_bound(F, fn, e["args"][0], env, depth - 1)
    return None


def local_defs(fn, vid):
    """All definitions of local vid: decl inits and assignments [(pos, rhs_expr_or_None, op)]."""
    out = []
    for pos, ev in fn.events():
        if ev.get("k") == "decl" and ev.get("vid") == vid:
            out.append((pos, ev.get("init"), "decl"))
        elif ev.get("k") == "bin" and ev.get("op", "") in ("=", "+=", "-=", "*=", "/=", "&=", "|=") and isinstance(strip_casts(ev.get("l")), dict) and strip_casts(ev.get("l")).get("vid") == vid:
            out.append((pos, ev.get("r"), ev["op"]))
        elif ev.get("k") == "un" and ev.get("op") in ("++", "--") and isinstance(strip_casts(ev.get("e")), dict) and strip_casts(ev.get("e")).get("vid") == vid:
            out.append((pos, None, ev["op"]))
    return out


def iteration_avoiding(fn, header, body, stop_block_pred):
    """Is there a path header -> (through body) -> header, i.e. one loop iteration, that passes no
    block for which stop_block_pred(block_id) is true? Returns the block path or None."""
    from collections import deque
    start = [s for s in fn.succs(header) if s in body and s != header]
    seen = set()
    prev = {}
    dq = deque()
    for s in start:
        if not stop_block_pred(s):
            seen.add(s)
            prev[s] = header
            dq.append(s)
    while dq:
        b = dq.popleft()
        for s in fn.succs(b):
            if s == header:
                path = [header, b]
                while path[-1] in prev and prev[path[-1]] != header:
                    path.append(prev[path[-1]])
                return [header] + list(reversed(path[1:])) + [header]
            if s in body and s not in seen and not stop_block_pred(s):
                seen.add(s)
                prev[s] = b
                dq.append(s)
    return None


def block_has(fn, b, pred):
    return any(pred(Pos(b, i), e) for i, e in enumerate(fn.blocks[b]["elems"]))


# ---------------------------------------------------------------------------------------------
# "when the wait flag is true, the task set is waited on" (C12 / C15 completion clause)
# ---------------------------------------------------------------------------------------------
def flag_false_edges(fn, is_flag):
    """Branch edges taken when the boolean flag expression is false: (block, succ index) -- however
    the test is spelled (named temporary, `== false`, early return on `!flag`)."""
    return fn.edges_where(lambda a: is_flag(strip_casts(a)), False)


def flag_true_edges(fn, is_flag):
    return fn.edges_where(lambda a: is_flag(strip_casts(a)), True)



def counts_under_flag(fn, NT, is_flag, sink="scheduleBulk"):
    """{True: set, False: set}: the symbolic values ('n', 'n-1', None = anything else) that the first
    argument of every `sink` call can take, relative to the variable NT, on the paths where the boolean
    flag is true / false. `flag ? n - 1 : n`, `n; if (flag) --n;`, `n - (flag ? 1 : 0)`, `n - flag`
    all evaluate the same."""
    from . import dataflow

    def classify(x, env, flag, depth=6):
        x = strip_casts(x)
        if not isinstance(x, dict) or depth <= 0:
            return None
        if x.get("k") == "var":
            if x.get("vid") == NT:
                return "n"
            return dict(env).get(x.get("vid"))
        if x.get("k") == "cond":
            c, pol = strip_casts(x.get("c")), True
            while isinstance(c, dict) and c.get("k") == "un" and c.get("op") == "!":
                c, pol = strip_casts(c.get("e")), not pol
            if is_flag(c):
                return classify(x.get("t") if flag == pol else x.get("f"), env, flag, depth - 1)
            return None
        if x.get("k") == "bin" and x.get("op") == "-":
            l = classify(x.get("l"), env, flag, depth - 1)
            r = strip_casts(x.get("r"))
            rv = const_val(r)
            if rv is None and isinstance(r, dict) and r.get("k") == "cond" and is_flag(strip_casts(r.get("c"))):
                rv = const_val(r.get("t") if flag else r.get("f"))
            if rv is None and is_flag(r):
                rv = 1 if flag else 0
            if l == "n" and rv == 1:
                return "n-1"
            if l in ("n", "n-1") and rv == 0:
                return l
        return None

    def key(d):
        return tuple(sorted(d.items(), key=lambda kv: kv[0]))

    verdict = {}
    for flag in (True, False):
        dead = flag_false_edges(fn, is_flag) if flag else flag_true_edges(fn, is_flag)
        seen_vals = set()

        def transfer(pos, ev, st, flag=flag, seen_vals=seen_vals):
            k = ev.get("k")
            if k == "decl" and ev.get("vid") is not None and ev.get("init") is not None:
                d = dict(st)
                d[ev["vid"]] = classify(ev["init"], st, flag)
                return key(d)
            if k == "bin" and ev.get("op") in ("=", "-=") and isinstance(strip_casts(ev.get("l")), dict) and strip_casts(ev.get("l")).get("k") == "var":
                v = strip_casts(ev["l"])["vid"]
                d = dict(st)
                if ev["op"] == "=":
                    d[v] = classify(ev.get("r"), st, flag)
                else:
                    d[v] = "n-1" if (d.get(v) == "n" and const_val(ev.get("r")) == 1) else None
                return key(d)
            if k == "un" and ev.get("op") == "--" and isinstance(strip_casts(ev.get("e")), dict) and strip_casts(ev.get("e")).get("k") == "var":
                v = strip_casts(ev["e"])["vid"]
                d = dict(st)
                d[v] = "n-1" if d.get(v) == "n" else None
                return key(d)
            if k == "call" and ev.get("name") == sink and ev.get("args"):
                seen_vals.add(classify(ev["args"][0], st, flag))
            return st

        def refine(cond, pol, st, b, dead=dead):
            return None if (b, 0 if pol else 1) in dead else st

        dataflow.run(fn, (), transfer, refine, None)
        verdict[flag] = seen_vals
    return verdict


def path_without_wait(fn, is_flag, is_wait_event):
    """A path from entry to the normal exit along which the flag is true at every test and no
    waiting event happens, or None."""
    removed = flag_false_edges(fn, is_flag)
    return fn.path_to_exit_avoiding(Pos(fn.entry, -1), is_wait_event, removed_edges=removed), removed


def eval_int(fn, e, leaf, depth=12):
    """Concrete value of an integer expression: constants, + - * / % << >> & |, unary -, std::min /
    std::max, ?: , single-definition locals (through their initialiser); everything else is asked of
    leaf(node) -> int or None. None = not evaluable (callers treat that as inconclusive)."""
    e = strip_casts(e)
    if depth <= 0 or not isinstance(e, dict):
        return None
    v = leaf(e)
    if v is not None:
        return v
    v = const_val(e)
    if v is not None:
        return int(v)
    k = e.get("k")
    if k == "bin":
        l, r = eval_int(fn, e.get("l"), leaf, depth - 1), eval_int(fn, e.get("r"), leaf, depth - 1)
        if l is None or r is None:
            return None
        op = e.get("op")
        try:
            return {"+": lambda: l + r, "-": lambda: l - r, "*": lambda: l * r, "/": lambda: l // r if r else None, "%": lambda: l % r if r else None,
                    "<<": lambda: l << r, ">>": lambda: l >> r, "&": lambda: l & r, "|": lambda: l | r,
                    "<": lambda: int(l < r), "<=": lambda: int(l <= r), ">": lambda: int(l > r), ">=": lambda: int(l >= r), "==": lambda: int(l == r), "!=": lambda: int(l != r)}[op]()
        except KeyError:
            return None
    if k == "un" and e.get("op") == "-":
        x = eval_int(fn, e.get("e"), leaf, depth - 1)
        return -x if x is not None else None
    if k == "cond":
        c = eval_int(fn, e.get("c"), leaf, depth - 1)
        if c is None:
            return None
        return eval_int(fn, e.get("t") if c else e.get("f"), leaf, depth - 1)
    if k == "call" and e.get("opcall") in ("&", "|", "^") and len(e.get("args", [])) == 2 and e.get("obj") is None:
        # overloaded bit operators of an enum class (std::launch, ...)
        l, r = eval_int(fn, e["args"][0], leaf, depth - 1), eval_int(fn, e["args"][1], leaf, depth - 1)
        if l is None or r is None:
            return None
        return {"&": l & r, "|": l | r, "^": l ^ r}[e["opcall"]]
    if k == "call" and e.get("callee") in ("std::max", "std::min"):
        vs = [eval_int(fn, a, leaf, depth - 1) for a in e.get("args", [])]
        if any(x is None for x in vs) or not vs:
            return None
        return max(vs) if e["callee"] == "std::max" else min(vs)
    if k == "var" and e.get("vk") == "local":
        d = single_def_value(fn, e)
        if d is not None:
            return eval_int(fn, d, leaf, depth - 1)
    return None
