"""Fact layer over the JSON emitted by build/dsa: functions, CFGs, events, dominance, guards.

Everything here is pure graph / tree work on the resolved program (type-checked AST + clang::CFG
of every in-scope function instantiation). No analysed code is executed.
"""
import json
import os
import re
from collections import defaultdict, deque

ORDER_RANK = {"relaxed": 0, "consume": 1, "acquire": 2, "release": 2, "acq_rel": 3, "seq_cst": 4}


def order_at_least(order, want):
    """want in {'acquire','release','acq_rel','seq_cst'}; lattice relaxed<{acq,rel}<acq_rel<seq_cst."""
    if order == "dynamic" or order is None:
        return False
    if want == "relaxed":
        return True
    if want == "acquire":
        return order in ("acquire", "acq_rel", "seq_cst")
    if want == "release":
        return order in ("release", "acq_rel", "seq_cst")
    if want == "acq_rel":
        return order in ("acq_rel", "seq_cst")
    if want == "seq_cst":
        return order == "seq_cst"
    raise ValueError(want)


def short_loc(loc):
    if not loc:
        return "?"
    parts = loc.rsplit(":", 2)
    if len(parts) == 3:
        return parts[0] + ":" + parts[1]
    return loc


def subexprs(e, seen=None):
    """All nested expression nodes of an event / expression tree (pre-order), de-duplicated by sid."""
    if seen is None:
        seen = set()
    stack = [e]
    while stack:
        x = stack.pop()
        if isinstance(x, dict):
            sid = x.get("sid")
            if "k" in x:
                if sid is not None:
                    if sid in seen:
                        continue
                    seen.add(sid)
                yield x
            # deterministic child order: evaluation-ish order
            for key in ("f", "t", "c", "r", "l", "e", "init", "idx", "base", "obj", "fn", "of_expr"):
                if key in x and isinstance(x[key], (dict, list)):
                    stack.append(x[key])
            for key in ("args", "kids", "placement", "captures"):
                if key in x and isinstance(x[key], list):
                    for a in reversed(x[key]):
                        stack.append(a)
        elif isinstance(x, list):
            for a in reversed(x):
                stack.append(a)


def strip_casts(e):
    while isinstance(e, dict) and e.get("k") == "cast":
        e = e.get("e")
    return e


def strip_move(e):
    """std::move / std::forward / static_cast<T&&> wrappers."""
    while isinstance(e, dict):
        if e.get("k") == "cast":
            e = e.get("e")
            continue
        if e.get("k") == "call" and e.get("callee") in ("std::move", "std::forward", "std::addressof", "std::move_if_noexcept") and e.get("args"):
            e = e["args"][0]
            continue
        break
    return e


def is_call(e, callee=None, name=None):
    if not isinstance(e, dict) or e.get("k") not in ("call", "construct"):
        return False
    if callee is not None:
        c = e.get("callee")
        if c is None:
            return False
        if isinstance(callee, str):
            if c != callee:
                return False
        elif not callee.search(c):
            return False
    if name is not None and e.get("name") != name:
        return False
    return True


def const_val(e):
    """Compile-time integer value of an expression (clang's constant evaluator), or None."""
    while isinstance(e, dict):
        if "cv" in e:
            return e["cv"]
        if "cvu" in e:
            return int(e["cvu"])
        if e.get("k") == "cast":
            e = e.get("e")
            continue
        if e.get("k") == "initlist" and len(e.get("args", [])) == 1:
            e = e["args"][0]
            continue
        break
    return None


def expr_str(e, depth=6):
    """Readable rendering for reports."""
    if e is None:
        return "∅"
    if not isinstance(e, dict):
        return str(e)
    if depth <= 0:
        return "…"
    k = e.get("k")
    d = depth - 1
    if k == "int":
        return e.get("name", str(e.get("cv")))
    if k == "var":
        return e.get("name", "?")
    if k == "this":
        return "this"
    if k == "null":
        return "nullptr"
    if k == "member":
        b = e.get("base")
        if isinstance(b, dict) and b.get("k") == "this":
            return e.get("fname", "?")
        return expr_str(b, d) + ("->" if e.get("arrow") else ".") + e.get("fname", "?")
    if k == "bin":
        return "(%s %s %s)" % (expr_str(e.get("l"), d), e.get("op"), expr_str(e.get("r"), d))
    if k == "un":
        if e.get("postfix"):
            return expr_str(e.get("e"), d) + e.get("op", "")
        return e.get("op", "") + expr_str(e.get("e"), d)
    if k == "cond":
        return "(%s ? %s : %s)" % (expr_str(e.get("c"), d), expr_str(e.get("t"), d), expr_str(e.get("f"), d))
    if k == "index":
        return "%s[%s]" % (expr_str(e.get("base"), d), expr_str(e.get("idx"), d))
    if k in ("call", "construct"):
        nm = e.get("name") or "(indirect)"
        args = ", ".join(expr_str(a, d) for a in e.get("args", []))
        if k == "construct":
            return "%s{%s}" % (e.get("type", nm), args)
        if e.get("obj") is not None:
            o = expr_str(e.get("obj"), d)
            if e.get("opcall") == "()":
                return "%s(%s)" % (o, args)
            if e.get("opcall") == "[]":
                return "%s[%s]" % (o, args)
            return "%s.%s(%s)" % (o, nm, args)
        if e.get("callee") is None and e.get("fn") is not None:
            return "%s(%s)" % (expr_str(e.get("fn"), d), args)
        return "%s(%s)" % (nm, args)
    if k == "cast":
        return "(%s)%s" % (e.get("to"), expr_str(e.get("e"), d))
    if k == "lambda":
        return "[lambda#%s]" % e.get("fid")
    if k == "new":
        pl = ", ".join(expr_str(a, d) for a in e.get("placement", []))
        return "new(%s) %s" % (pl, e.get("type"))
    if k == "delete":
        return "delete " + expr_str(e.get("e"), d)
    if k == "return":
        return "return " + expr_str(e.get("e"), d)
    if k == "decl":
        return "%s %s = %s" % (e.get("type"), e.get("name"), expr_str(e.get("init"), d))
    if k == "sizeof":
        return "sizeof(%s)" % (e.get("of_type") or expr_str(e.get("of_expr"), d))
    if k == "autodtor":
        return "~%s() [auto %s]" % (e.get("type"), e.get("name"))
    if k == "tempdtor":
        return "~%s() [temp]" % e.get("type")
    if k == "init":
        return "%s(%s)" % (e.get("fname") or e.get("base") or "delegate", expr_str(e.get("init"), d))
    if k == "throw":
        return "throw " + expr_str(e.get("e"), d)
    if k == "pseudodtor":
        return expr_str(e.get("base"), d) + ".~%s()" % e.get("type")
    if k == "initlist":
        return "{" + ", ".join(expr_str(a, d) for a in e.get("args", [])) + "}"
    return "<%s>" % (e.get("cls") or k)


class Pos(tuple):
    """(block id, element index). Index len(elems) means 'at the terminator'."""
    __slots__ = ()

    def __new__(cls, b, i):
        return tuple.__new__(cls, (b, i))

    @property
    def b(self):
        return self[0]

    @property
    def i(self):
        return self[1]


class Fn:
    def __init__(self, raw, facts):
        self.raw = raw
        self.facts = facts
        self.id = raw["id"]
        self.qname = raw["qname"]
        self.display = raw.get("display", self.qname)
        self.ploc = raw.get("ploc", "")
        self.loc = raw.get("loc", "")
        self.cls = raw.get("cls")
        self.targs = raw.get("targs", "")
        self.targv = raw.get("targv", [])
        self.parent_id = raw.get("parent", 0)
        self.is_lambda = bool(raw.get("lambda"))
        self.params = raw.get("params", [])
        self.blocks = {b["id"]: b for b in raw["blocks"]}
        self.entry = raw["entry"]
        self.exit = raw["exit"]
        self.tu = None
        self.cfg = ""
        self._dom = None
        self._pdom = None
        self._preds = None
        self._reach_cache = {}
        self._live = None
        self._abnormal = None

    # ---- identity -------------------------------------------------------------------------
    @property
    def key(self):
        return (self.qname, short_loc(self.ploc), self.display)

    @property
    def pattern_key(self):
        return (self.qname, short_loc(self.ploc))

    def where(self):
        return "%s (%s)" % (self.display, short_loc(self.ploc))

    @property
    def parent(self):
        return self.facts.by_id(self.tu, self.parent_id) if self.parent_id else None

    def root_parent(self):
        f = self
        while f.parent is not None:
            f = f.parent
        return f

    def children(self):
        return [g for g in self.facts.tu_functions(self.tu) if g.parent_id == self.id]

    # ---- graph -----------------------------------------------------------------------------
    def abnormal_blocks(self):
        """Blocks that end in a throw or a noreturn call (abort, terminate): control does not
        continue to their CFG successor (clang links them to the exit block)."""
        if self._abnormal is None:
            ab = set()
            for b, blk in self.blocks.items():
                if blk.get("noreturn"):
                    ab.add(b)
                elif blk["elems"] and blk["elems"][-1].get("k") == "throw":
                    ab.add(b)
            self._abnormal = ab
        return self._abnormal

    def succs(self, b):
        if b in self.abnormal_blocks():
            return []
        return [s for s in self.blocks[b]["succs"] if s is not None]

    def succ_edges(self, b):
        """[(index, succ)] with pruned edges omitted."""
        if b in self.abnormal_blocks():
            return []
        return [(i, s) for i, s in enumerate(self.blocks[b]["succs"]) if s is not None]

    def preds(self):
        if self._preds is None:
            p = defaultdict(list)
            for b in self.blocks:
                for s in self.succs(b):
                    p[s].append(b)
            self._preds = p
        return self._preds

    def reachable_blocks(self, start=None, removed_edges=(), removed_blocks=(), extra_edges=None):
        start = self.entry if start is None else start
        seen = set()
        if start in removed_blocks:
            return seen
        dq = deque([start])
        seen.add(start)
        while dq:
            b = dq.popleft()
            nxt = list(self.succ_edges(b))
            if extra_edges and b in extra_edges:
                nxt += [(-1, s) for s in extra_edges[b]]
            for i, s in nxt:
                if (b, i) in removed_edges or s in removed_blocks or s in seen:
                    continue
                seen.add(s)
                dq.append(s)
        return seen

    def eh_edges(self):
        """Virtual edges block -> catch-handler block for every block that has an event lexically
        inside the try whose handler it is (clang's CFG has no EH edges; this is the coarse,
        'anything in the try may throw' over-approximation)."""
        handlers = defaultdict(list)
        for b, blk in self.blocks.items():
            lab = blk.get("label")
            if lab and lab.get("kind") == "CXXCatchStmt" and lab.get("catch_of_try"):
                handlers[lab["catch_of_try"]].append(b)
        extra = defaultdict(set)
        for b, blk in self.blocks.items():
            for ev in blk["elems"]:
                t = ev.get("try")
                if t and t in handlers:
                    extra[b].update(handlers[t])
        return extra

    def live_blocks(self):
        """Blocks reachable from the entry (catch handlers count as reachable from their try body);
        branches pruned by clang because their condition is a compile-time constant in this
        instantiation (if (kPlaced) ...) are dead and excluded."""
        if self._live is None:
            self._live = self.reachable_blocks(extra_edges=self.eh_edges())
        return self._live

    def events(self, include_dead=False):
        live = None if include_dead else self.live_blocks()
        for b in sorted(self.blocks, reverse=True):
            if live is not None and b not in live:
                continue
            for i, ev in enumerate(self.blocks[b]["elems"]):
                yield Pos(b, i), ev

    def event_at(self, pos):
        el = self.blocks[pos.b]["elems"]
        return el[pos.i] if 0 <= pos.i < len(el) else None

    def term(self, b):
        return self.blocks[b].get("term")

    def all_nodes(self):
        """(pos, node) for every expression node in events and terminator conditions; a node that is
        nested in several events is reported once, at its first (innermost, earliest) event."""
        seen = set()
        for pos, ev in self.events():
            for n in subexprs(ev, seen):
                yield pos, n
        live = self.live_blocks()
        for b, blk in self.blocks.items():
            if b not in live:
                continue
            t = blk.get("term")
            if t and t.get("cond") is not None:
                for n in subexprs(t["cond"], seen):
                    yield Pos(b, len(blk["elems"])), n

    def find_events(self, pred):
        return [(pos, ev) for pos, ev in self.events() if pred(ev)]

    def calls(self, callee=None, name=None):
        """Top-level call/construct events (each call expression appears exactly once as an event)."""
        return [(pos, ev) for pos, ev in self.events() if is_call(ev, callee, name)]

    # ---- dominance -------------------------------------------------------------------------
    def _compute_dom(self, entry, succ_fn, nodes):
        order = []
        seen = set([entry])
        stack = [(entry, iter(succ_fn(entry)))]
        while stack:
            n, it = stack[-1]
            adv = False
            for s in it:
                if s not in seen and s in nodes:
                    seen.add(s)
                    stack.append((s, iter(succ_fn(s))))
                    adv = True
                    break
            if not adv:
                order.append(n)
                stack.pop()
        rpo = list(reversed(order))
        idx = {n: i for i, n in enumerate(rpo)}
        preds = defaultdict(list)
        for n in rpo:
            for s in succ_fn(n):
                if s in idx:
                    preds[s].append(n)
        idom = {entry: entry}
        changed = True
        while changed:
            changed = False
            for n in rpo[1:]:
                new = None
                for p in preds[n]:
                    if p in idom:
                        if new is None:
                            new = p
                        else:
                            a, b = p, new
                            while a != b:
                                while idx[a] > idx[b]:
                                    a = idom[a]
                                while idx[b] > idx[a]:
                                    b = idom[b]
                            new = a
                if new is not None and idom.get(n) != new:
                    idom[n] = new
                    changed = True
        return idom

    def dom(self):
        if self._dom is None:
            self._dom = self._compute_dom(self.entry, self.succs, set(self.blocks))
        return self._dom

    def block_dominates(self, a, b):
        idom = self.dom()
        if b not in idom:
            return False  # unreachable
        while True:
            if a == b:
                return True
            n = idom.get(b)
            if n is None or n == b:
                return False
            b = n

    def dominates(self, pa, pb):
        """every path from entry to pb passes pa."""
        if pa.b == pb.b:
            return pa.i < pb.i
        return self.block_dominates(pa.b, pb.b)

    def pdom(self):
        if self._pdom is None:
            preds = self.preds()
            self._pdom = self._compute_dom(self.exit, lambda n: preds.get(n, []), set(self.blocks))
        return self._pdom

    def block_postdominates(self, a, b):
        ip = self.pdom()
        if b not in ip:
            return False
        while True:
            if a == b:
                return True
            n = ip.get(b)
            if n is None or n == b:
                return False
            b = n

    def postdominates(self, pa, pb):
        """every path from pb to exit passes pa (exit = normal exit incl. noreturn/throw blocks)."""
        if pa.b == pb.b:
            return pa.i > pb.i
        return self.block_postdominates(pa.b, pb.b)

    # ---- guards ----------------------------------------------------------------------------
    def branch_blocks(self):
        live = self.live_blocks()
        for b, blk in self.blocks.items():
            if b not in live:
                continue
            t = blk.get("term")
            if t and t.get("cond") is not None and len(blk["succs"]) == 2:
                yield b, t

    def guards(self, pos, extra_edges=None):
        """[(cond, polarity(bool), block)] : branch edges every entry->pos path must take.
        The branch of pos's own block is not included (its events run before the branch)."""
        out = []
        base = self.reachable_blocks(extra_edges=extra_edges)
        if pos.b not in base:
            return out
        for b, t in self.branch_blocks():
            if b not in base:
                continue
            succs = self.blocks[b]["succs"]
            for i in (0, 1):
                if succs[i] is None:
                    continue
                r = self.reachable_blocks(removed_edges={(b, i)}, extra_edges=extra_edges)
                if pos.b not in r:
                    out.append((t["cond"], i == 0, b))
        return out

    def reachable_without(self, pos, edge_pred):
        """Is pos's block still reachable from the entry when every branch edge (cond, polarity) for
        which edge_pred(cond_atom, polarity) holds is removed? (disjunctive guards: 'S only under A or B')"""
        removed = set()
        for b, t in self.branch_blocks():
            for i in (0, 1):
                a, pol = normalize_cond(t["cond"], i == 0)
                if edge_pred(a, pol):
                    removed.add((b, i))
        return pos.b in self.reachable_blocks(removed_edges=removed), removed

    def cond_atoms(self, cond, pol, b=None):
        """What a branch condition taking the value `pol` says, as atoms [(expr, polarity, block)]:
        negations, casts and __builtin_expect stripped; `X && Y` true / `X || Y` false split into
        their operands; the same with named temporaries written out (expand_expr); and for
        `X == 0`, `X != nullptr`, `flag == true` ... the truth value of X itself."""
        res = []
        seen = set()

        def add(cond, pol, tag=""):
            a, p = normalize_cond(cond, pol)
            # clang reports the *whole* condition for the last operand of a chain of logical
            # operators: (X && Y) true => X true and Y true; (X || Y) false => X false and Y false.
            if isinstance(a, dict) and a.get("k") == "bin" and ((a.get("op") == "&&" and p) or (a.get("op") == "||" and not p)):
                add(a.get("l"), p, tag)
                add(a.get("r"), p, tag)
                return
            key = (a.get("sid") if isinstance(a, dict) else id(a), p, tag)
            if key in seen:
                return
            seen.add(key)
            res.append((a, p, b))
            if isinstance(a, dict) and a.get("k") == "bin" and a.get("op") in ("==", "!="):
                for x, o in ((a.get("l"), a.get("r")), (a.get("r"), a.get("l"))):
                    oc = strip_casts(o)
                    if not isinstance(oc, dict) or oc.get("k") not in ("int", "bool", "null"):
                        continue
                    v = const_val(oc)
                    if oc.get("k") == "null":
                        v = 0
                    if v in (0, False):
                        add(x, p if a["op"] == "!=" else (not p), tag + "t")
                    elif v is True or (v == 1 and (oc.get("bool") or (strip_casts(x) or {}).get("ctype", (strip_casts(x) or {}).get("type", "")) in ("bool", "const bool"))):
                        add(x, p if a["op"] == "==" else (not p), tag + "t")
                    break

        add(cond, pol)
        x = self.expand_expr(cond, use_block=b)
        if x is not cond:
            add(x, pol, "x")      # the same guard with named temporaries written out
        return res

    def guard_atoms(self, pos, extra_edges=None):
        """guards() as atoms (see cond_atoms): [(atom_expr, polarity, block)]."""
        res = []
        for cond, pol, b in self.guards(pos, extra_edges):
            res.extend(self.cond_atoms(cond, pol, b))
        return res

    def edges_where(self, pred, value=True):
        """CFG branch edges {(block, succ index)} on which an expression satisfying pred(expr) is
        known to have the truth value `value` -- however the test is spelled (`if (x)`,
        `if (!x) ... else`, `const bool ok = x; if (ok == false)`, `x && y`)."""
        out = set()
        for b, t in self.branch_blocks():
            for i in (0, 1):
                for a, p, _ in self.cond_atoms(t["cond"], i == 0, b):
                    if p == value and pred(a):
                        out.add((b, i))
        return out

    # ---- copy propagation of named temporaries ------------------------------------------------------
    def _stable_locals(self):
        """vid -> initialiser for locals that are defined exactly once (their declaration), are not
        references and are never assigned, incremented or compound-assigned afterwards."""
        if getattr(self, "_stable", None) is None:
            decl, writes = {}, defaultdict(int)
            self._decl_pos, self._write_pos = {}, defaultdict(list)
            for prm in self.params:
                if prm.get("vid") is not None:
                    writes[prm["vid"]] += 1
            for pos, ev in self.events():
                k = ev.get("k")
                if k == "decl" and ev.get("vid") is not None:
                    writes[ev["vid"]] += 1
                    self._write_pos[ev["vid"]].append(pos)
                    if ev.get("init") is not None and not ev.get("isref") and "&" not in (ev.get("type") or ""):
                        decl[ev["vid"]] = ev["init"]
                        self._decl_pos[ev["vid"]] = pos
                elif k == "bin" and ev.get("op", "").endswith("=") and ev.get("op") not in ("==", "!=", "<=", ">="):
                    l = strip_casts(ev.get("l"))
                    if isinstance(l, dict) and l.get("k") == "var":
                        writes[l.get("vid")] += 1
                        self._write_pos[l.get("vid")].append(pos)
                elif k == "un" and ev.get("op") in ("++", "--"):
                    x = strip_casts(ev.get("e"))
                    if isinstance(x, dict) and x.get("k") == "var":
                        writes[x.get("vid")] += 1
                        self._write_pos[x.get("vid")].append(pos)
            addr = set()
            for pos, nd in self.all_nodes():
                if nd.get("k") == "un" and nd.get("op") == "&":
                    x = strip_casts(nd.get("e"))
                    if isinstance(x, dict) and x.get("k") == "var":
                        addr.add(x.get("vid"))
            self._stable = {v: i for v, i in decl.items() if writes[v] == 1 and v not in addr}
            self._written = {v for v, n in writes.items() if n > 1} | addr
            self._addr_taken = addr
        return self._stable

    def _unchanged_between(self, leaf_vid, decl_pos, use_block):
        """No write to leaf_vid can execute after the declaration at decl_pos and before the branch
        at the end of use_block without the declaration executing again in between (a loop variable
        named inside the loop body is fine: `const bool owns = flags[b]; if (owns)` ... `++b`)."""
        if leaf_vid in self._addr_taken or use_block is None:
            return False
        for w in self._write_pos.get(leaf_vid, []):
            if w.b == decl_pos.b and w.i < decl_pos.i:
                after_decl = False
            else:
                after_decl = w.b == decl_pos.b or w.b in self.reachable_blocks(start=decl_pos.b)
            if not after_decl:
                continue
            # can the use be reached from the write without re-executing the declaration?
            if w.b == use_block:
                if not (w.b == decl_pos.b and w.i < decl_pos.i):
                    return False
                continue
            r = self.reachable_blocks(start=w.b, removed_blocks={decl_pos.b} if decl_pos.b != w.b else set())
            if w.b == decl_pos.b:
                # write after the declaration in the same block: leaving the block keeps the written value
                r = self.reachable_blocks(start=w.b)
            if use_block in r:
                return False
        return True

    def expand_expr(self, e, depth=4, use_block=None):
        """e with every use of a stable local replaced by its initialiser (transitively): the guard
        `if (writerPresent)` after `const bool writerPresent = (before & kBit) != 0;` and
        `const int before = word.fetch_add(1);` reads `(word.fetch_add(1) & kBit) != 0`. A local is
        only substituted if every variable its initialiser mentions is never reassigned -- or, when
        the block of the use is known, cannot be reassigned between the declaration and that use --
        so the written-out expression denotes the same value. Returns e itself if nothing changed."""
        st = self._stable_locals()
        if not st or depth <= 0 or not isinstance(e, (dict, list)):
            return e
        if isinstance(e, list):
            xs = [self.expand_expr(x, depth, use_block) for x in e]
            return xs if any(a is not b for a, b in zip(xs, e)) else e
        if e.get("k") == "var" and e.get("vid") in st and e.get("vk") in ("local", None):
            init = st[e["vid"]]
            leaves = [x for x in subexprs(init) if isinstance(x, dict) and x.get("k") == "var" and x.get("vk") in ("local", "param")]
            if all(x.get("vid") not in self._written or self._unchanged_between(x.get("vid"), self._decl_pos[e["vid"]], use_block) for x in leaves):
                return self.expand_expr(init, depth - 1, use_block)
            return e
        out = None
        for key in ("l", "r", "e", "c", "t", "f", "obj", "base", "idx", "args", "kids", "placement", "init", "fn"):
            if key in e and isinstance(e[key], (dict, list)):
                x = self.expand_expr(e[key], depth, use_block)
                if x is not e[key]:
                    if out is None:
                        out = dict(e)
                    out[key] = x
        return out if out is not None else e

    # ---- path queries ----------------------------------------------------------------------
    def path_to_exit_avoiding(self, start, stop, include_noreturn=False, extra_edges=None, targets=None, removed_edges=()):
        """Search a path from just after `start` (Pos) to the function's normal exit (or to any
        position in `targets`, a predicate on (pos, ev)) that does not execute an event for which
        stop(pos, ev) is true. Returns the list of block ids of such a path, or None if every path
        is stopped. Blocks that end in a noreturn call are not normal exits unless include_noreturn.
        """
        def scan(b, i0):
            els = self.blocks[b]["elems"]
            for i in range(i0, len(els)):
                p = Pos(b, i)
                if targets is not None and targets(p, els[i]):
                    return "target"
                if stop(p, els[i]):
                    return "stop"
            return "through"

        r = scan(start.b, start.i + 1)
        if r == "stop":
            return None
        if r == "target":
            return [start.b]
        seen = set()
        dq = deque()
        prev = {}

        def push_succs(b):
            if b in self.abnormal_blocks():
                if not include_noreturn:
                    return
                nxt = [x for x in self.blocks[b]["succs"] if x is not None]
            else:
                nxt = [x for i, x in self.succ_edges(b) if (b, i) not in removed_edges]
            if extra_edges and b in extra_edges:
                nxt += list(extra_edges[b])
            for s in nxt:
                if s not in seen:
                    seen.add(s)
                    prev[s] = b
                    dq.append(s)

        push_succs(start.b)
        while dq:
            b = dq.popleft()
            if b == self.exit and targets is None:
                path = [b]
                while path[-1] in prev and path[-1] != start.b:
                    path.append(prev[path[-1]])
                    if len(path) > len(self.blocks) + 2:
                        break
                return list(reversed(path))
            r = scan(b, 0)
            if r == "stop":
                continue
            if r == "target":
                path = [b]
                while path[-1] in prev and path[-1] != start.b:
                    path.append(prev[path[-1]])
                    if len(path) > len(self.blocks) + 2:
                        break
                return list(reversed(path))
            push_succs(b)
        return None

    def can_reach(self, pa, pb, avoid=None):
        """is there a path from just after pa to pb (not executing an `avoid` event in between)?"""
        stop = avoid if avoid is not None else (lambda p, e: False)
        return self.path_to_exit_avoiding(pa, stop, include_noreturn=True, targets=lambda p, e: p == pb) is not None

    def describe_path(self, blocks):
        out = []
        for b in blocks:
            blk = self.blocks[b]
            locs = [short_loc(e.get("loc")) for e in blk["elems"] if e.get("loc")]
            t = blk.get("term")
            if not locs and t:
                locs = [short_loc(t.get("loc"))]
            out.append("B%d@%s" % (b, locs[0].rsplit("/", 1)[-1] if locs else "-"))
        return " -> ".join(out)


def _is_zero(e):
    e = strip_casts(e)
    return isinstance(e, dict) and e.get("k") in ("int", "bool", "null") and const_val(e) in (0, False)


def _is_true(e):
    e = strip_casts(e)
    return isinstance(e, dict) and e.get("k") == "int" and e.get("bool") and const_val(e) in (1, True)


def _boolish(e):
    """an expression whose truth value is what a `!= 0` around it tests: a bit test, a logical
    expression, a comparison, or something of type bool"""
    e = strip_casts(e)
    if not isinstance(e, dict):
        return False
    if e.get("k") == "bin" and e.get("op") in ("&", "&&", "||", "<", "<=", ">", ">=", "==", "!="):
        return True
    if e.get("k") == "un" and e.get("op") == "!":
        return True
    return (e.get("ctype") or e.get("type") or "") in ("bool", "_Bool", "const bool")


def normalize_cond(cond, pol):
    """Strip !, __builtin_expect, casts, implicit bool, `(bit-test) != 0` / `== 0`; flips polarity
    through negations."""
    e = cond
    while isinstance(e, dict):
        k = e.get("k")
        if k == "un" and e.get("op") == "!":
            e = e.get("e")
            pol = not pol
            continue
        if k == "cast":
            e = e.get("e")
            continue
        if k == "call" and e.get("name") == "__builtin_expect" and e.get("args"):
            e = e["args"][0]
            continue
        if k == "bin" and e.get("op") in ("!=", "=="):
            l, r = e.get("l"), e.get("r")
            x = l if _is_zero(r) else (r if _is_zero(l) else None)
            if x is not None and _boolish(x):
                if e["op"] == "==":
                    pol = not pol
                e = x
                continue
            x = l if _is_true(r) else (r if _is_true(l) else None)
            if x is not None and _boolish(x):
                if e["op"] == "!=":
                    pol = not pol
                e = x
                continue
        break
    return e, pol


class Facts:
    def __init__(self):
        self.tus = {}        # tu path -> raw
        self.fns = []        # unique Fn (first occurrence per key)
        self._by_tu = defaultdict(dict)   # tu -> id -> Fn
        self._tu_list = defaultdict(list)
        self.by_key = {}
        self.witnesses = {}
        self.records = {}
        self.dups = 0

    def add_tu(self, path, raw, keep_all=True):
        """Add one unit. Functions are unique per (configuration, qname, location, instantiation
        display, lambda parent chain): by the ODR a second unit's copy of the same key under the same
        configuration has the same body, so the first occurrence is the canonical Fn and later units'
        ids are mapped to it. Different configurations (c14 / c17 / debug) are never merged."""
        cfg = path.split(":", 1)[0] if ":" in path else ""
        self.tus[path] = {"errors": raw.get("errors", 0), "nfunctions": len(raw["functions"])}
        local = {}
        order = []
        for rf in raw["functions"]:
            fn = Fn(rf, self)
            fn.tu = path
            fn.cfg = cfg
            local[fn.id] = fn
            order.append(fn)
        self._by_tu[path] = local
        for w in raw.get("witnesses", []):
            self.witnesses.setdefault(w["qname"], w)
        for r in raw.get("records", []):
            self.records.setdefault(r["inst"], r)
        canon = {}
        for fn in order:
            k = self._full_key(fn)
            c = self.by_key.get(k)
            if c is not None:
                self.dups += 1
                canon[fn.id] = c
                continue
            self.by_key[k] = fn
            self.fns.append(fn)
            canon[fn.id] = fn
        # later lookups through this unit's ids resolve to the canonical copies
        self._by_tu[path] = canon
        self._tu_list[path] = [f for f in order if canon[f.id] is f]

    def _full_key(self, fn):
        ks = [fn.cfg]
        f = fn
        while f is not None:
            ks.append(f.key)
            f = f.parent
        return tuple(ks)

    def by_id(self, tu, fid):
        return self._by_tu[tu].get(fid)

    def tu_functions(self, tu):
        return self._tu_list[tu]

    def functions(self, qname=None, regex=None, cls=None, pred=None):
        out = []
        rx = re.compile(regex) if isinstance(regex, str) else regex
        for f in self.fns:
            if qname is not None and f.qname != qname:
                continue
            if rx is not None and not rx.search(f.qname):
                continue
            if cls is not None and f.cls != cls:
                continue
            if pred is not None and not pred(f):
                continue
            out.append(f)
        return out

    def callee_fn(self, fn, ev):
        """Resolve the Fn of a call event's callee (same TU), or None (no body in scope)."""
        fid = ev.get("fid")
        if fid is None:
            return None
        return self.by_id(fn.tu, fid)


def load(paths, pack=None):
    """paths: [(label, json file)]. With `pack`, the de-duplicated union is persisted (marshal) next
    to the per-unit facts and reused by later runs over the same unit list: the thorough tier parses
    ~170 units whose header instantiations overlap almost entirely."""
    import marshal
    if pack and os.path.exists(pack):
        try:
            with open(pack, "rb") as fh:
                data = marshal.load(fh)
            return _from_pack(data)
        except Exception:
            pass
    F = Facts()
    for p, jf in paths:
        with open(jf) as fh:
            F.add_tu(p, json.load(fh))
    if pack:
        data = _to_pack(F)
        tmp = pack + ".tmp%d" % os.getpid()
        with open(tmp, "wb") as fh:
            marshal.dump(data, fh)
        os.rename(tmp, pack)
    return F


def _to_pack(F):
    idx = {id(fn): i for i, fn in enumerate(F.fns)}
    return {
        "tus": F.tus,
        "fns": [(fn.tu, fn.raw) for fn in F.fns],
        "idmaps": {tu: {fid: idx[id(fn)] for fid, fn in m.items()} for tu, m in F._by_tu.items()},
        "witnesses": F.witnesses,
        "records": F.records,
        "dups": F.dups,
    }


def _from_pack(data):
    F = Facts()
    F.tus = data["tus"]
    for tu, raw in data["fns"]:
        fn = Fn(raw, F)
        fn.tu = tu
        fn.cfg = tu.split(":", 1)[0] if ":" in tu else ""
        F.fns.append(fn)
    for tu, m in data["idmaps"].items():
        F._by_tu[tu] = {fid: F.fns[i] for fid, i in m.items()}
    for fn in F.fns:
        F._tu_list[fn.tu].append(fn)
        F.by_key[F._full_key(fn)] = fn
    F.witnesses = data["witnesses"]
    F.records = data["records"]
    F.dups = data["dups"]
    return F


# ---- virtual inlining of single-call-site helpers -----------------------------------------------------
def inline_single_use_helpers(F, max_blocks=60):
    """A member function that is called from exactly one place in the parsed program, by another
    member of the same class, on `this`, for its effect only (void), is what 'extract method'
    produces. The rules are written against the caller's control flow, so the callee's CFG is
    spliced into the caller at the call site (one level; the callee keeps existing as a function of
    its own). Behaviour-preserving extraction of a block of a long function (resizeLocked, the
    destructor, wait loops) then leaves every path query unchanged. Returns the list of
    (caller, callee) pairs for the evidence."""
    by_tu_calls = defaultdict(list)
    use_locs = defaultdict(set)            # callee source pattern -> distinct call-site source locations
    for fn in F.fns:
        if not fn.qname.startswith("dispenso::"):
            continue
        for pos, nd in fn.all_nodes():
            if nd.get("k") == "call" and nd.get("fid") is not None and nd.get("callee"):
                g = F.by_id(fn.tu, nd["fid"])
                if g is not None:
                    use_locs[g.pattern_key].add(short_loc(nd.get("loc") or "") or (fn.pattern_key, nd.get("sid")))
        for pos, ev in fn.events(include_dead=True):
            if ev.get("k") == "call" and ev.get("fid") is not None and ev.get("callee"):
                g = F.by_id(fn.tu, ev["fid"])
                if g is not None:
                    by_tu_calls[id(g)].append((fn, pos, ev, g))
    nested_use = None
    done = []
    for gid, sites in by_tu_calls.items():
        h, pos, ev, g = sites[0]
        # the helper is used from exactly one place in the source (all instantiations alike)
        if len(sites) != 1 or len(use_locs.get(g.pattern_key, ())) != 1:
            continue
        if g is h or g.is_lambda or h.is_lambda or not g.cls or g.cls != h.cls or g.tu != h.tu or g.cfg != h.cfg:
            continue
        if g.params or ev.get("args"):
            continue   # only parameterless helpers: a block of the caller that was given a name
        if ev.get("type") != "void" or ev.get("opcall") or len(g.blocks) > max_blocks or getattr(g, "_inlined_into", None) or getattr(h, "_has_inlined", None):
            continue
        if g.qname.endswith("(ctor)") or g.qname.endswith("(dtor)") or g.raw.get("virtual"):
            continue
        o = strip_casts(ev.get("obj"))
        if not (isinstance(o, dict) and o.get("k") == "this"):
            continue
        if any(e2.get("fid") == h.id for _, e2 in g.events(include_dead=True) if e2.get("k") == "call"):
            continue   # mutual recursion
        _splice(h, pos, ev, g)
        g._inlined_into = h
        h._has_inlined = True
        done.append((h.qname, g.qname))
    F.inlined = done
    return done


def _splice(h, pos, call_ev, g):
    K = 1000
    assert len(g.blocks) + 3 < K
    newid = {b: b * K for b in h.blocks}
    gorder = sorted(g.blocks, reverse=True)          # entry first
    b0 = pos.b
    gid = {}
    nxt = newid[b0] - 1
    for gb in gorder:
        if gb == g.exit:
            continue
        gid[gb] = nxt
        nxt -= 1
    cont = nxt                                          # the rest of the split block
    loop_off = 1000
    blocks = {}
    for b, blk in h.blocks.items():
        nb = dict(blk)
        nb["id"] = newid[b]
        nb["succs"] = [None if s is None else newid[s] for s in blk["succs"]]
        if "succs_all" in blk:
            nb["succs_all"] = [None if s is None else newid[s] for s in blk["succs_all"]]
        blocks[newid[b]] = nb
    # split the calling block
    B = blocks[newid[b0]]
    tail = {k: v for k, v in B.items()}
    tail["id"] = cont
    tail["elems"] = B["elems"][pos.i + 1:]
    tail.pop("label", None)
    binds = []
    for prm, arg in zip(g.params, call_ev.get("args", [])):
        binds.append({"k": "decl", "vid": prm.get("vid"), "name": prm.get("name"), "type": prm.get("type"), "ctype": prm.get("ctype"), "init": arg, "loc": call_ev.get("loc"), "sid": -(call_ev.get("sid", 0) * 16 + len(binds) + 1), "inlined_param": True})
    marker = dict(call_ev)
    marker["inlined"] = g.qname          # the call event stays visible (rules that look for the call still find it)
    B["elems"] = B["elems"][:pos.i] + [marker] + binds
    B["term"] = None
    B["succs"] = [gid[g.entry]]
    B.pop("succs_all", None)
    B.pop("noreturn", None)
    blocks[cont] = tail
    for gb in gorder:
        if gb == g.exit:
            continue
        blk = g.blocks[gb]
        nb = dict(blk)
        nb["id"] = gid[gb]
        els = []
        for e in blk["elems"]:
            if e.get("k") == "return":
                continue
            if any(k in e for k in ("loop", "try", "catch")):
                e = dict(e)
                for k in ("loop", "try", "catch"):
                    if e.get(k) is not None:
                        e[k] = e[k] + loop_off
            els.append(e)
        nb["elems"] = els
        t = blk.get("term")
        if t and t.get("loop") is not None:
            t = dict(t)
            t["loop"] = t["loop"] + loop_off
            nb["term"] = t
        nb["succs"] = [None if s is None else (cont if s == g.exit else gid[s]) for s in blk["succs"]]
        if "succs_all" in blk:
            nb["succs_all"] = [None if s is None else (cont if s == g.exit else gid[s]) for s in blk["succs_all"]]
        nb["inlined_from"] = g.qname
        blocks[gid[gb]] = nb
    h.blocks = blocks
    h.entry = newid[h.entry]
    h.exit = newid[h.exit]
    for attr in ("_dom", "_pdom", "_preds", "_live", "_abnormal", "_stable"):
        setattr(h, attr, None)
    h._reach_cache = {}
