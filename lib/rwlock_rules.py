"""Rules on RWLockImpl shared by C22 (RWLock) and C23 (DistributedRWLock, whose slots are RWLockImpl)."""
from . import dataflow
from .facts import Pos, const_val, expr_str, is_call, normalize_cond, strip_casts, subexprs
from .rules import atomic_ops, comparison_of, field_name, lvalue_path

WORD = "dispenso::detail::CompletionEventImpl::status_"
KWRITE = -2147483648
KREADERS = 2147483647
CLS = "dispenso::detail::RWLockImpl"


def _tests_write_bit(cond_atom, vid=None, sid=None):
    """atom is (x & kWriteBit) [!= 0] with x the variable vid or the expression sid"""
    a = strip_casts(cond_atom)
    if isinstance(a, dict) and a.get("k") == "bin" and a.get("op") == "&":
        l, r = strip_casts(a.get("l")), strip_casts(a.get("r"))
        for x, m in ((l, r), (r, l)):
            if const_val(m) == KWRITE and isinstance(x, dict):
                if vid is not None and x.get("k") == "var" and x.get("vid") == vid:
                    return True
                if sid is not None and x.get("sid") == sid:
                    return True
    return False


def reader_entry(R, F, inst, why):
    """lock_shared / try_lock_shared: an incremented reader count is either validated (the result of
    *that* increment had the writer bit clear) or backed out through readerRelease() before the
    function returns; 'acquired' is reported only in the validated state."""
    n = 0
    for q in ("lock_shared", "try_lock_shared"):
        for fn in F.functions(qname=CLS + "::" + q):
            incs = {}
            for a in atomic_ops(F, fn):
                if a.field == WORD and a.op == "fetch_add" and const_val(a.node["args"][0]) == 1:
                    incs[a.node["sid"]] = a
            n += 1
            # state: (held: 'U'|'P'|'OK'|'BAD', result var vid or None)
            def transfer(pos, ev, st):
                held, rv = st
                k = ev.get("k")
                # where does an increment's result go?
                src = None
                tgt = None
                if k == "decl" and isinstance(ev.get("init"), dict) and strip_casts(ev["init"]).get("sid") in incs:
                    src, tgt = strip_casts(ev["init"])["sid"], ev["vid"]
                elif k == "bin" and ev.get("op") == "=" and isinstance(strip_casts(ev.get("r")), dict) and strip_casts(ev["r"]).get("sid") in incs:
                    src, tgt = strip_casts(ev["r"])["sid"], strip_casts(ev.get("l")).get("vid")
                if src is not None:
                    return ("P", tgt)
                if k == "call" and ev.get("sid") in incs:
                    # result may be captured by the enclosing decl/assignment event that follows
                    if held in ("P", "OK"):
                        raise dataflow.Violation("reader count incremented again while an earlier increment is still held")
                    return ("P", None)
                if k == "bin" and ev.get("op") == "=" and rv is not None and strip_casts(ev.get("l")).get("vid") == rv:
                    # the variable that held the increment's result is overwritten by something else
                    return (held, None) if held == "P" else st
                if is_call(ev, CLS + "::readerRelease"):
                    if held == "U":
                        raise dataflow.Violation("readerRelease() without a held reader count (count underflow)")
                    return ("U", None)
                if k == "return":
                    v = const_val(ev.get("e"))
                    if q == "try_lock_shared":
                        if v == 1 and held != "OK":
                            raise dataflow.Violation("try_lock_shared reports success although the increment's result was not seen with the writer bit clear")
                        if v == 0 and held != "U":
                            raise dataflow.Violation("try_lock_shared reports failure but leaves its reader count in place (a failed try must leave no trace)")
                return st

            def refine(cond, pol, st, b):
                held, rv = st
                a, p = normalize_cond(cond, pol)
                if held == "P":
                    hit = False
                    if rv is not None and _tests_write_bit(a, vid=rv):
                        hit = True
                    for s in incs:
                        if _tests_write_bit(a, sid=s):
                            hit = True
                    if hit:
                        return ("BAD" if p else "OK", rv)
                if held in ("OK", "BAD") and rv is not None and _tests_write_bit(a, vid=rv):
                    if (held == "OK") == p:
                        return None   # infeasible: same value tested again
                return st

            def at_exit(st):
                held, rv = st
                if q == "lock_shared" and held != "OK":
                    return "lock_shared returns in state %s: the reader count it holds was never seen with the writer bit clear (a writer may own the lock)" % held
                if held == "BAD":
                    return "returns holding a reader count although a writer owns the lock"
                return None

            vios, stats = dataflow.run(fn, ("U", None), transfer, refine, at_exit)
            R.paths_enumerated += stats["state_block_pairs"]
            if not vios:
                R.ob(inst, fn, fn.loc, True, "%s: every increment is validated against the writer bit or released (%d states)" % (q, stats["state_block_pairs"]), sitekey=q, why=why)
            for v in vios:
                R.ob(inst, fn, (v["ev"] or {}).get("loc") or fn.loc, False, v["msg"], sitekey=q, why=why, path=fn.describe_path(v["trail"][-8:]))
    return n


def writer_try(R, F, inst, why):
    """RWLockImpl::try_lock: the writer bit is cleared on failure iff this call set it."""
    n = 0
    for fn in F.functions(qname=CLS + "::try_lock"):
        sets = {a.node["sid"]: a for a in atomic_ops(F, fn) if a.field == WORD and a.op == "fetch_or" and const_val(a.node["args"][0]) == KWRITE}
        n += 1
        def transfer(pos, ev, st):
            own, rv = st
            k = ev.get("k")
            if k == "decl" and isinstance(ev.get("init"), dict) and strip_casts(ev["init"]).get("sid") in sets:
                return ("P", ev["vid"])
            if k == "call" and ev.get("sid") in sets and own == "N":
                return ("P", rv)
            if k == "call" and ev.get("atomic", {}).get("op") == "fetch_and" and const_val(ev["args"][0]) == KREADERS:
                if own == "THEIRS":
                    raise dataflow.Violation("clears a writer bit that another writer set (releases someone else's lock)")
                return ("N", rv)
            if k == "return":
                v = const_val(ev.get("e"))
                if v == 0 and own == "OURS":
                    raise dataflow.Violation("returns false while still holding the writer bit it set (a failed try_lock must leave no trace)")
                if v == 1 and own != "OURS":
                    raise dataflow.Violation("returns true without owning the writer bit")
            return st
        def refine(cond, pol, st, b):
            own, rv = st
            a, p = normalize_cond(cond, pol)
            if own == "P" and rv is not None and _tests_write_bit(a, vid=rv):
                return ("THEIRS" if p else "OURS", rv)
            return st
        vios, stats = dataflow.run(fn, ("N", None), transfer, refine, None)
        if not vios:
            # success requires the drained observation: val == 0 or load == kWriteBit
            rets = [(p, e) for p, e in fn.events() if e.get("k") == "return" and const_val(e.get("e")) == 1]
            ok = bool(rets)
            for p, e in rets:
                g = False
                for at, pol, b in fn.guard_atoms(p):
                    c = strip_casts(at)
                    if isinstance(c, dict) and c.get("k") == "bin" and c.get("op") == "==" and pol and (const_val(c.get("r")) in (0, KWRITE) or const_val(c.get("l")) in (0, KWRITE)):
                        g = True
                ok = ok and g
            R.ob(inst, fn, fn.loc, ok, "bit cleared on failure iff set by this call; success only after observing no readers" if ok else "try_lock can succeed without observing that readers drained", sitekey="try_lock", why=why)
        for v in vios:
            R.ob(inst, fn, (v["ev"] or {}).get("loc") or fn.loc, False, v["msg"], sitekey="try_lock", why=why, path=fn.describe_path(v["trail"][-8:]))
    return n


def release_rules(R, F, inst, why):
    n = 0
    for fn in F.functions(cls=CLS):
        nm = fn.qname.split("::")[-1]
        for a in atomic_ops(F, fn):
            if a.field != WORD:
                continue
            if a.op == "fetch_sub":
                n += 1
                ok = nm in ("readerRelease", "lock_upgrade") and const_val(a.node["args"][0]) == 1
                R.ob(inst, fn, a.node, ok, "reader count decremented in %s" % nm, sitekey="dec@" + nm, why="only a reader's own release (or the upgrader draining itself) may decrement the reader count")
            if a.op == "fetch_and":
                n += 1
                ok = const_val(a.node["args"][0]) == KREADERS and nm in ("unlock", "try_lock")
                R.ob(inst, fn, a.node, ok, "%s clears only the writer bit" % nm if ok else "%s: fetch_and(%s)" % (nm, const_val(a.node["args"][0])), sitekey="and@" + nm, why="unlock must preserve the reader counts of readers that are backing off")
    for fn in F.functions(qname=CLS + "::readerRelease"):
        n += 1
        sub = [a for a in atomic_ops(F, fn) if a.field == WORD and a.op == "fetch_sub"]
        wakes = [(p, e) for p, e in fn.events() if e.get("k") == "call" and e.get("name") in ("tryNotify", "notify")]
        ok = False
        if sub and wakes:
            rv = None
            for p, e in fn.events():
                if e.get("k") == "decl" and isinstance(e.get("init"), dict) and strip_casts(e["init"]).get("sid") == sub[0].node["sid"]:
                    rv = e["vid"]
            for at, pol, b in fn.guard_atoms(wakes[0][0]):
                c = comparison_of(at, pol, lambda x: isinstance(strip_casts(x), dict) and (strip_casts(x).get("vid") == rv or strip_casts(x).get("sid") == sub[0].node["sid"]))
                if c and c[0] == "==" and const_val(c[1]) == (KWRITE | 1):
                    ok = True
        R.ob(inst, fn, fn.loc, ok, "the last reader leaving under a waiting writer (prev == kWriteBit|1) wakes it" if ok else "last-reader wake condition is not prev == (kWriteBit | 1)", sitekey="readerRelease-wake", why="a writer parked in waitForReaderDrain is woken only by the last reader's release")
    for fn in F.functions(qname=CLS + "::waitForReaderDrain"):
        n += 1
        ws = [(p, e) for p, e in fn.events() if is_call(e, "dispenso::detail::CompletionEventImpl::wait")]
        ok = bool(ws) and all(const_val(e["args"][0]) == KWRITE for _, e in ws)
        R.ob(inst, fn, fn.loc, ok, "drain waits until the word equals exactly kWriteBit (no readers)" if ok else "drain does not wait for 'writer bit and zero readers'", sitekey="drain", why="exclusive access requires that every reader has left")
    return n
