"""Rules on RWLockImpl shared by C22 (RWLock) and C23 (DistributedRWLock, whose slots are RWLockImpl)."""
from . import dataflow
from .facts import Pos, const_val, expr_str, is_call, normalize_cond, strip_casts, subexprs
from .rules import atomic_ops, comparison_of, field_name, lvalue_path

WORD = "dispenso::detail::CompletionEventImpl::status_"
KWRITE = -2147483648
KREADERS = 2147483647
CLS = "dispenso::detail::RWLockImpl"


def _tests_write_bit(cond_atom, vid=None, sid=None):
    """atom is (x & kWriteBit) [!= 0] with x the variable vid or the expression sid"""
    a = strip_casts(cond_atom)
    if isinstance(a, dict) and a.get("k") == "bin" and a.get("op") == "&":
        l, r = strip_casts(a.get("l")), strip_casts(a.get("r"))
        for x, m in ((l, r), (r, l)):
            if const_val(m) == KWRITE and isinstance(x, dict):
                if vid is not None and x.get("k") == "var" and x.get("vid") == vid:
                    return True
                if sid is not None and x.get("sid") == sid:
                    return True
    return False


def reader_entry(R, F, inst, why):
    """lock_shared / try_lock_shared: an incremented reader count is either validated (the result of
    *that* increment had the writer bit clear) or backed out through readerRelease() before the
    function returns; 'acquired' is reported only in the validated state."""
    n = 0
    for q in ("lock_shared", "try_lock_shared"):
        for fn in F.functions(qname=CLS + "::" + q):
            incs = {}
            for a in atomic_ops(F, fn):
                if a.field == WORD and a.op == "fetch_add" and const_val(a.node["args"][0]) == 1:
                    incs[a.node["sid"]] = a
            n += 1
            # state: (held: 'U'|'P'|'OK'|'BAD', result var vid or None)
            def transfer(pos, ev, st):
                held, rv = st
                k = ev.get("k")
                # where does an increment's result go?
                src = None
                tgt = None
                if k == "decl" and isinstance(ev.get("init"), dict) and strip_casts(ev["init"]).get("sid") in incs:
                    src, tgt = strip_casts(ev["init"])["sid"], ev["vid"]
                elif k == "bin" and ev.get("op") == "=" and isinstance(strip_casts(ev.get("r")), dict) and strip_casts(ev["r"]).get("sid") in incs:
                    src, tgt = strip_casts(ev["r"])["sid"], strip_casts(ev.get("l")).get("vid")
                if src is not None:
                    return ("P", tgt)
                if k == "call" and ev.get("sid") in incs:
                    # result may be captured by the enclosing decl/assignment event that follows
                    if held in ("P", "OK"):
                        raise dataflow.Violation("reader count incremented again while an earlier increment is still held")
                    return ("P", None)
                if k == "bin" and ev.get("op") == "=" and rv is not None and strip_casts(ev.get("l")).get("vid") == rv:
                    # the variable that held the increment's result is overwritten by something else
                    return (held, None) if held == "P" else st
                if is_call(ev, CLS + "::readerRelease"):
                    if held == "U":
                        raise dataflow.Violation("readerRelease() without a held reader count (count underflow)")
                    return ("U", None)
                if k == "return":
                    v = const_val(ev.get("e"))
                    if q == "try_lock_shared":
                        if v == 1 and held != "OK":
                            raise dataflow.Violation("try_lock_shared reports success although the increment's result was not seen with the writer bit clear")
                        if v == 0 and held != "U":
                            raise dataflow.Violation("try_lock_shared reports failure but leaves its reader count in place (a failed try must leave no trace)")
                return st

            def refine(cond, pol, st, b):
                held, rv = st
                a, p = normalize_cond(cond, pol)
                if held == "P":
                    hit = False
                    if rv is not None and _tests_write_bit(a, vid=rv):
                        hit = True
                    for s in incs:
                        if _tests_write_bit(a, sid=s):
                            hit = True
                    if hit:
                        return ("BAD" if p else "OK", rv)
                if held in ("OK", "BAD") and rv is not None and _tests_write_bit(a, vid=rv):
                    if (held == "OK") == p:
                        return None   # infeasible: same value tested again
                return st

            def at_exit(st):
                held, rv = st
                if q == "lock_shared" and held != "OK":
                    return "lock_shared returns in state %s: the reader count it holds was never seen with the writer bit clear (a writer may own the lock)" % held
                if held == "BAD":
                    return "returns holding a reader count although a writer owns the lock"
                return None

            vios, stats = dataflow.run(fn, ("U", None), transfer, refine, at_exit)
            R.paths_enumerated += stats["state_block_pairs"]
            if not vios:
                R.ob(inst, fn, fn.loc, True, "%s: every increment is validated against the writer bit or released (%d states)" % (q, stats["state_block_pairs"]), sitekey=q, why=why)
            for v in vios:
                R.ob(inst, fn, (v["ev"] or {}).get("loc") or fn.loc, False, v["msg"], sitekey=q, why=why, path=fn.describe_path(v["trail"][-8:]))
    return n


def writer_try(R, F, inst, why):
    """RWLockImpl::try_lock: the writer bit is cleared on failure iff this call set it."""
    n = 0
    for fn in F.functions(qname=CLS + "::try_lock"):
        sets = {a.node["sid"]: a for a in atomic_ops(F, fn) if a.field == WORD and a.op == "fetch_or" and const_val(a.node["args"][0]) == KWRITE}
        n += 1
        def transfer(pos, ev, st):
            own, rv = st
            k = ev.get("k")
            if k == "decl" and isinstance(ev.get("init"), dict) and strip_casts(ev["init"]).get("sid") in sets:
                return ("P", ev["vid"])
            if k == "call" and ev.get("sid") in sets and own == "N":
                return ("P", rv)
            if k == "call" and ev.get("atomic", {}).get("op") == "fetch_and" and const_val(ev["args"][0]) == KREADERS:
                if own == "THEIRS":
                    raise dataflow.Violation("clears a writer bit that another writer set (releases someone else's lock)")
                return ("N", rv)
            if k == "return":
                v = const_val(ev.get("e"))
                if v == 0 and own == "OURS":
                    raise dataflow.Violation("returns false while still holding the writer bit it set (a failed try_lock must leave no trace)")
                if v == 1 and own != "OURS":
                    raise dataflow.Violation("returns true without owning the writer bit")
            return st
        def refine(cond, pol, st, b):
            own, rv = st
            a, p = normalize_cond(cond, pol)
            if own == "P" and rv is not None and _tests_write_bit(a, vid=rv):
                return ("THEIRS" if p else "OURS", rv)
            return st
        vios, stats = dataflow.run(fn, ("N", None), transfer, refine, None)
        if not vios:
            # success requires the drained observation: val == 0 or load == kWriteBit
            rets = [(p, e) for p, e in fn.events() if e.get("k") == "return" and const_val(e.get("e")) == 1]
            ok = bool(rets)
            for p, e in rets:
                g = False
                for at, pol, b in fn.guard_atoms(p):
                    c = strip_casts(at)
                    if isinstance(c, dict) and c.get("k") == "bin" and c.get("op") == "==" and pol and (const_val(c.get("r")) in (0, KWRITE) or const_val(c.get("l")) in (0, KWRITE)):
                        g = True
                ok = ok and g
            R.ob(inst, fn, fn.loc, ok, "bit cleared on failure iff set by this call; success only after observing no readers" if ok else "try_lock can succeed without observing that readers drained", sitekey="try_lock", why=why)
        for v in vios:
            R.ob(inst, fn, (v["ev"] or {}).get("loc") or fn.loc, False, v["msg"], sitekey="try_lock", why=why, path=fn.describe_path(v["trail"][-8:]))
    return n


def release_rules(R, F, inst, why):
    n = 0
    for fn in F.functions(cls=CLS):
        nm = fn.qname.split("::")[-1]
        for a in atomic_ops(F, fn):
            if a.field != WORD:
                continue
            if a.op == "fetch_sub":
                n += 1
                ok = nm in ("readerRelease", "lock_upgrade") and const_val(a.node["args"][0]) == 1
                R.ob(inst, fn, a.node, ok, "reader count decremented in %s" % nm, sitekey="dec@" + nm, why="only a reader's own release (or the upgrader draining itself) may decrement the reader count")
            if a.op == "fetch_and":
                n += 1
                # the callers that own the writer bit when they clear it: unlock(), the try_lock()
                # rollback (ownership checked by C22.writer-try) and lock_downgrade() (which may
                # call unlock() or clear the bit itself)
                ok = const_val(a.node["args"][0]) == KREADERS and nm in ("unlock", "try_lock", "lock_downgrade")
                R.ob(inst, fn, a.node, ok, "%s clears only the writer bit" % nm if ok else "%s: fetch_and(%s)" % (nm, const_val(a.node["args"][0])), sitekey="and@" + nm, why="unlock must preserve the reader counts of readers that are backing off")
    for fn in F.functions(qname=CLS + "::readerRelease"):
        n += 1
        sub = [a for a in atomic_ops(F, fn) if a.field == WORD and a.op == "fetch_sub"]
        wakes = [(p, e) for p, e in fn.events() if e.get("k") == "call" and e.get("name") in ("tryNotify", "notify")]
        ok = False
        if sub and wakes:
            rv = None
            for p, e in fn.events():
                if e.get("k") == "decl" and isinstance(e.get("init"), dict) and strip_casts(e["init"]).get("sid") == sub[0].node["sid"]:
                    rv = e["vid"]
            for at, pol, b in fn.guard_atoms(wakes[0][0]):
                c = comparison_of(at, pol, lambda x: isinstance(strip_casts(x), dict) and (strip_casts(x).get("vid") == rv or strip_casts(x).get("sid") == sub[0].node["sid"]))
                if c and c[0] == "==" and const_val(c[1]) == (KWRITE | 1):
                    ok = True
        R.ob(inst, fn, fn.loc, ok, "the last reader leaving under a waiting writer (prev == kWriteBit|1) wakes it" if ok else "last-reader wake condition is not prev == (kWriteBit | 1)", sitekey="readerRelease-wake", why="a writer parked in waitForReaderDrain is woken only by the last reader's release")
    for fn in F.functions(qname=CLS + "::waitForReaderDrain"):
        n += 1
        ws = [(p, e) for p, e in fn.events() if is_call(e, "dispenso::detail::CompletionEventImpl::wait")]
        ok = bool(ws) and all(const_val(e["args"][0]) == KWRITE for _, e in ws)
        R.ob(inst, fn, fn.loc, ok, "drain waits until the word equals exactly kWriteBit (no readers)" if ok else "drain does not wait for 'writer bit and zero readers'", sitekey="drain", why="exclusive access requires that every reader has left")
    return n


ARITH_OPS = ("load", "fetch_add", "fetch_sub", "fetch_or", "fetch_and", "compare_exchange_weak", "compare_exchange_strong")


def word_updates(R, F, inst):
    """The lock word is shared with threads that are, at any instant, part-way through a speculative
    `fetch_add(1)` / back-out pair. Any write that is not an arithmetic read-modify-write of the
    current value (store, exchange, CompletionEventImpl::notify, operator=) erases such an in-flight
    count: the back-out then removes someone else's count. Every access to the word from RWLockImpl
    must therefore be a load, fetch_add/sub/or/and or a compare-exchange."""
    n = 0
    for fn in F.functions(cls=CLS):
        nm = fn.qname.split("::")[-1]
        if nm in ("(ctor)", "(dtor)"):
            continue
        for a in atomic_ops(F, fn):
            if a.field != WORD:
                continue
            n += 1
            ok = a.op in ARITH_OPS
            R.ob(inst, fn, a.node, ok, "%s: %s on the lock word" % (nm, a.op), sitekey="%s@%s" % (a.op, nm),
                 why="a plain store/exchange overwrites the counts of readers that are between their speculative increment and its back-out")
        for p, e in fn.events():
            if e.get("k") == "call" and (e.get("cls") or "").endswith("CompletionEventImpl") and e.get("name") not in ("wait", "tryNotify", "intrusiveStatus", "waitUntilChanged", "waitFor", "waitUntil"):
                if e.get("name") in ("CompletionEventImpl", "~CompletionEventImpl"):
                    continue
                n += 1
                R.ob(inst, fn, e, False, "%s calls CompletionEventImpl::%s, which stores to the lock word" % (nm, e.get("name")), sitekey="event@" + nm,
                     why="notify() stores a whole status value: it erases the reader counts")
    return n


def transitions(R, F, inst):
    """lock_downgrade: +1 reader *before* the writer bit is cleared (never a window with the word 0
    while the caller still reads; never a combined overwrite). lock_upgrade: writer bit claimed
    before the caller's own reader count is dropped, and the drain wait comes last."""
    n = 0

    def sites(fn):
        add = [a for a in atomic_ops(F, fn) if a.field == WORD and a.op == "fetch_add" and const_val(a.node["args"][0]) == 1]
        sub = [a for a in atomic_ops(F, fn) if a.field == WORD and a.op == "fetch_sub" and const_val(a.node["args"][0]) == 1]
        clr = [p for p, e in fn.events() if is_call(e, CLS + "::unlock")] + [a.pos for a in atomic_ops(F, fn) if a.field == WORD and a.op == "fetch_and" and const_val(a.node["args"][0]) == KREADERS]
        setw = [p for p, e in fn.events() if is_call(e, CLS + "::setWriteBit")]
        drain = [p for p, e in fn.events() if is_call(e, CLS + "::waitForReaderDrain")]
        return add, sub, clr, setw, drain

    def unrecognised(fn, allowed):
        """word operations other than the ones the transition is written in today: a rewrite this
        rule has no model for (e.g. a single combined fetch_add) -> inconclusive, not a violation"""
        out = []
        for a in atomic_ops(F, fn):
            if a.field != WORD or a.op not in ARITH_OPS:
                continue   # non-arithmetic writes are C22.word-updates violations already
            c = const_val(a.node["args"][0]) if a.node.get("args") else None
            if (a.op, c) not in allowed:
                out.append("%s(%s)" % (a.op, c))
        return out

    for fn in F.functions(qname=CLS + "::lock_downgrade"):
        n += 1
        add, sub, clr, setw, drain = sites(fn)
        un = unrecognised(fn, {("fetch_add", 1), ("fetch_and", KREADERS)})
        if un:
            R.inconclusive(inst, "lock_downgrade is written with %s: no model for this shape" % ", ".join(un))
            continue
        ok = len(add) == 1 and len(clr) == 1 and not sub and fn.dominates(add[0].pos, clr[0]) and fn.postdominates(clr[0], add[0].pos) \
            and fn.path_to_exit_avoiding(Pos(fn.entry, -1), lambda pp, ee: pp == add[0].pos) is None
        R.ob(inst, fn, fn.loc, ok, "downgrade adds its reader count, then clears only the writer bit, on every path" if ok else "downgrade is not 'fetch_add(1) then clear the writer bit' (adds %d, clears %d, subs %d)" % (len(add), len(clr), len(sub)),
             sitekey="downgrade", why="the downgrading writer must become a counted reader before any other writer can claim the bit, without disturbing in-flight reader counts")
    for fn in F.functions(qname=CLS + "::lock_upgrade"):
        n += 1
        add, sub, clr, setw, drain = sites(fn)
        un = unrecognised(fn, {("fetch_sub", 1)})
        if un == ["fetch_or(%d)" % KWRITE] and not setw:
            # the writer bit is claimed inline instead of through setWriteBit(): that is only a claim
            # if the result is tested and the claim retried while another writer owned the bit
            ors = [a for a in atomic_ops(F, fn) if a.field == WORD and a.op == "fetch_or"]
            tested = False
            for a in ors:
                sid = a.node["sid"]
                rv = None
                for p, e in fn.events():
                    if e.get("k") == "decl" and isinstance(strip_casts(e.get("init")), dict) and strip_casts(e["init"]).get("sid") == sid:
                        rv = e["vid"]
                    if e.get("k") == "bin" and e.get("op") == "=" and isinstance(strip_casts(e.get("r")), dict) and strip_casts(e["r"]).get("sid") == sid and isinstance(strip_casts(e.get("l")), dict):
                        rv = strip_casts(e["l"]).get("vid")
                from .rules import natural_loops
                for h, body, tails in natural_loops(fn):
                    for at, pol, _ in fn.cond_atoms((fn.term(h) or {}).get("cond"), True, h):
                        if _tests_write_bit(at, vid=rv, sid=sid) and pol:
                            tested = True
            n += 1
            R.ob(inst, fn, ors[0].node if ors else fn.loc, tested, "upgrade claims the writer bit in a retry loop that tests the previous value" if tested else
                 "upgrade sets the writer bit with a single fetch_or whose result is ignored: if another writer (a try_lock in its drain window, a lock()) owns the bit, both believe they own it once the readers have drained",
                 sitekey="upgrade", why="dropping the reader count before owning the writer bit lets another writer in; not dropping it deadlocks the drain")
            continue
        if un:
            R.inconclusive(inst, "lock_upgrade is written with %s: no model for this shape" % ", ".join(un))
            continue
        ok = len(setw) == 1 and len(sub) == 1 and len(drain) == 1 and not add and not clr and fn.dominates(setw[0], sub[0].pos) and fn.dominates(sub[0].pos, drain[0]) \
            and fn.path_to_exit_avoiding(Pos(fn.entry, -1), lambda pp, ee: pp == drain[0]) is None
        R.ob(inst, fn, fn.loc, ok, "upgrade claims the writer bit, drops its own reader count, then waits for the drain" if ok else "upgrade is not 'setWriteBit; fetch_sub(1); waitForReaderDrain'",
             sitekey="upgrade", why="dropping the reader count before owning the writer bit lets another writer in; not dropping it deadlocks the drain")
    for fn in F.functions(qname=CLS + "::lock"):
        n += 1
        add, sub, clr, setw, drain = sites(fn)
        ok = len(setw) == 1 and len(drain) == 1 and fn.dominates(setw[0], drain[0]) and fn.path_to_exit_avoiding(Pos(fn.entry, -1), lambda pp, ee: pp == drain[0]) is None and not add and not sub and not clr
        R.ob(inst, fn, fn.loc, ok, "lock() = setWriteBit then waitForReaderDrain on every path" if ok else "lock() can return without owning the bit and seeing the readers drained",
             sitekey="lock", why="exclusive access requires the writer bit and zero readers")
    return n
