"""K7 LOCK-REGION: a spin-lock word L protecting fields P.

For every access to a protected field in the analysed function:
  * it lies inside a region entered through a *valid* acquire of L whose success was tested:
      fetch_or(1)/fetch_add(1)/exchange(1) whose result (directly or through the local it was stored
      in) compared == 0, or a compare-exchange (expected 0 -> non-zero) on its success edge, where
      the expected operand is re-initialised on every retry (a CAS that retries with the value it
      just observed succeeds from any state);
  * every path from the access to the function exit passes the release store(0) of L.
"""
from .facts import Pos, const_val, expr_str, order_at_least, strip_casts, subexprs
from .rules import (atomic_ops, comparison_of, field_name, local_defs, lvalue_path, natural_loops)


def reaching_def(fn, vid, pos):
    """The definition of local vid that reaches pos on every path, as (def_pos, rhs) or None."""
    defs = local_defs(fn, vid)
    dom = [d for d in defs if fn.dominates(d[0], pos)]
    if not dom:
        return None
    last = None
    for d in dom:
        if all(o is d or fn.dominates(o[0], d[0]) for o in dom):
            last = d
    if last is None:
        return None
    for o in defs:
        if o in dom:
            continue
        if fn.path_to_exit_avoiding(o[0], lambda p, e: p == last[0], include_noreturn=True, targets=lambda p, e: p == pos) is not None:
            return None
    return last


def acquire_ok(F, fn, a, pos):
    """Is `pos` on the success side of acquire op `a`? returns (bool, description)."""
    sid = a.node["sid"]
    if a.op.startswith("compare_exchange"):
        for at, pol, b in fn.guard_atoms(pos):
            x = strip_casts(at)
            if pol and isinstance(x, dict) and x.get("sid") == sid:
                return True, "compare_exchange succeeded"
        return False, ""
    if a.op in ("fetch_or", "fetch_add", "exchange", "test_and_set"):
        def matches(x):
            x = strip_casts(x)
            if not isinstance(x, dict):
                return False
            if x.get("sid") == sid:
                return True
            if x.get("k") == "var":
                return False
            return False
        for at, pol, b in fn.guard_atoms(pos):
            c = comparison_of(at, pol, matches)
            if c and c[0] == "==" and const_val(c[1]) == 0:
                return True, "%s result == 0" % a.op
            # through a local
            def isvar(x):
                x = strip_casts(x)
                return isinstance(x, dict) and x.get("k") == "var" and x.get("vk") == "local"
            c = comparison_of(at, pol, isvar)
            if c and c[0] == "==" and const_val(c[1]) == 0:
                v = strip_casts(c[2])
                rd = reaching_def(fn, v["vid"], Pos(b, len(fn.blocks[b]["elems"])))
                if rd is not None and isinstance(strip_casts(rd[1]), dict) and strip_casts(rd[1]).get("sid") == sid:
                    return True, "%s result (via '%s') == 0" % (a.op, v["name"])
    return False, ""


def cas_form_ok(F, fn, a):
    """expected operand is (re)initialised to 0 before every attempt; desired is non-zero."""
    if not a.op.startswith("compare_exchange"):
        amt = const_val(a.node["args"][0]) if a.node.get("args") else None
        return (amt is not None and amt != 0), "%s(%s)" % (a.op, amt)
    exp = strip_casts(a.node["args"][0])
    des = const_val(a.node["args"][1])
    if not (isinstance(exp, dict) and exp.get("k") == "var") or not des:
        return False, "expected operand is not a local / desired value is zero"
    vid = exp["vid"]
    def resets(p, e):
        if e.get("k") == "decl" and e.get("vid") == vid:
            return const_val(e.get("init")) == 0
        if e.get("k") == "bin" and e.get("op") == "=" and isinstance(strip_casts(e.get("l")), dict) and strip_casts(e.get("l")).get("vid") == vid:
            return const_val(e.get("r")) == 0
        return False
    # every path entry -> CAS passes a reset; every path CAS -> CAS (retry) passes a reset
    p0 = fn.path_to_exit_avoiding(Pos(fn.entry, -1), resets, include_noreturn=True, targets=lambda p, e: p == a.pos)
    p1 = fn.path_to_exit_avoiding(a.pos, resets, include_noreturn=True, targets=lambda p, e: p == a.pos)
    if p0 is not None:
        return False, "expected operand not initialised to 0 before the first attempt"
    if p1 is not None:
        return False, "a retry re-uses the value the failed compare-exchange stored in '%s': the next attempt succeeds against a held lock" % exp["name"]
    return True, "expected operand reset to 0 before every attempt"


def analyse(F, fn, lock_field, protected, R, inst, why):
    ops = atomic_ops(F, fn)
    acq = [a for a in ops if a.field == lock_field and a.is_rmw and order_at_least(a.success_order, "acquire")]
    weak_acq = [a for a in ops if a.field == lock_field and a.is_rmw and not order_at_least(a.success_order, "acquire")]
    rel = {a.pos for a in ops if a.field == lock_field and a.op == "store" and const_val(a.node["args"][0]) == 0 and order_at_least(a.success_order, "release")}
    n = 0
    seen = set()
    for pos, node in fn.all_nodes():
        if node.get("k") not in ("member", "var"):
            continue
        p = field_name(lvalue_path(F, fn, node))
        if p not in protected:
            continue
        # the declaration of a reference alias is not an access
        ev = fn.event_at(pos)
        if ev is not None and ev.get("k") == "decl" and (ev.get("type", "").endswith("&")):
            continue
        key = (pos, p)
        if key in seen:
            continue
        seen.add(key)
        n += 1
        held = None
        for a in acq:
            ok, how = acquire_ok(F, fn, a, pos)
            if ok:
                held = (a, how)
                break
        loc = node.get("loc") or (ev or {}).get("loc") or fn.loc
        short = p.split("::")[-1]
        if held is None:
            det = "access to %s is not inside a region entered by a successful acquire of %s" % (short, lock_field.split("::")[-1])
            if weak_acq:
                det += " (the acquiring operation is %s)" % weak_acq[0].success_order
            R.ob(inst + ".held", fn, loc, False, det, sitekey="%s@%s" % (short, fn.qname.split("::")[-1]), why=why)
            continue
        formok, formdet = cas_form_ok(F, fn, held[0])
        R.ob(inst + ".held", fn, loc, formok, "%s accessed after %s; %s" % (short, held[1], formdet), sitekey="%s@%s" % (short, fn.qname.split("::")[-1]), why=why)
        path = fn.path_to_exit_avoiding(pos, lambda pp, ee: pp in rel)
        R.ob(inst + ".released", fn, loc, path is None, "the lock is released (store 0, release) on every path after the access" if path is None else "a path leaves the function still holding the lock",
             sitekey="%s@%s" % (short, fn.qname.split("::")[-1]), why=why, path=fn.describe_path(path) if path else None)
    return n
