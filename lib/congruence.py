"""K10 CONGRUENCE (targeted form): is an integer expression guaranteed to be a multiple of the
granularity g ('A'), a range-start-relative multiple start + A ('R'), definitely not guaranteed ('N':
built from a plain division, a bit operation, a remainder, or a sum with such a value), or unknown
(None -> the obligation is inconclusive, never a violation)."""
from .facts import const_val, strip_casts, strip_move
from .lockregion import reaching_def


class Cong:
    def __init__(self, F, fn, is_g, is_base=None, a_fields=(), a_calls=("roundUpToGranularity", "alignDownStripe")):
        self.F = F
        self.fn = fn
        self.is_g = is_g            # predicate on expr: denotes the granularity
        self.is_base = is_base or (lambda e: False)   # predicate: denotes the range start
        self.a_fields = set(a_fields)   # member field names already proven to hold multiples of g
        self.a_calls = set(a_calls)

    def mult(self, e, pos=None, depth=8):
        e = strip_casts(e)
        if depth <= 0 or not isinstance(e, dict):
            return None
        if self.is_g(e):
            return "A"
        v = const_val(e)
        if v is not None:
            return "A" if v == 0 else None
        k = e.get("k")
        if k == "member" and e.get("fname") in self.a_fields:
            return "A"
        if k == "var":
            if pos is not None and e.get("vk") == "local":
                rd = reaching_def(self.fn, e["vid"], pos)
                if rd is not None and rd[1] is not None and rd[2] in ("decl", "="):
                    return self.mult(rd[1], rd[0], depth - 1)
            return None
        if k == "bin":
            op = e.get("op")
            l, r = e.get("l"), e.get("r")
            if op == "*":
                ml, mr = self.mult(l, pos, depth - 1), self.mult(r, pos, depth - 1)
                if ml == "A" or mr == "A":
                    return "A"
                return None
            if op in ("+", "-"):
                ml, mr = self.mult(l, pos, depth - 1), self.mult(r, pos, depth - 1)
                if ml == "A" and mr == "A":
                    return "A"
                if "N" in (ml, mr):
                    return "N"
                return None
            if op in ("/", "%", "&", "|", "^", ">>", "<<"):
                return "N"
            return None
        if k == "un" and e.get("op") == "-":
            return self.mult(e.get("e"), pos, depth - 1)
        if k == "cond":
            a, b = self.mult(e.get("t"), pos, depth - 1), self.mult(e.get("f"), pos, depth - 1)
            if a == "A" and b == "A":
                return "A"
            if "N" in (a, b):
                return "N"
            return None
        if k == "call":
            nm = e.get("name")
            if nm in self.a_calls and len(e.get("args", [])) >= 2 and self.is_g(strip_casts(e["args"][1])):
                return "A"
            if e.get("callee") in ("std::min", "std::max"):
                ms = [self.mult(a, pos, depth - 1) for a in e.get("args", [])]
                if ms and all(m == "A" for m in ms):
                    return "A"
                if "N" in ms:
                    return "N"
            return None
        if k == "construct" and len(e.get("args", [])) == 1:
            return self.mult(e["args"][0], pos, depth - 1)
        return None

    def rel(self, e, pos=None, depth=8):
        """'R' if e = base + multiple (or base itself); 'N' if definitely not; None unknown."""
        e = strip_casts(e)
        if depth <= 0 or not isinstance(e, dict):
            return None
        if self.is_base(e):
            return "R"
        k = e.get("k")
        if k == "var" and pos is not None and e.get("vk") == "local":
            rd = reaching_def(self.fn, e["vid"], pos)
            if rd is not None and rd[1] is not None and rd[2] in ("decl", "="):
                return self.rel(rd[1], rd[0], depth - 1)
            return None
        if k == "bin" and e.get("op") in ("+", "-"):
            l, r = e.get("l"), e.get("r")
            rl, mr = self.rel(l, pos, depth - 1), self.mult(r, pos, depth - 1)
            if rl == "R" and mr == "A":
                return "R"
            if e.get("op") == "+":
                rr, ml = self.rel(r, pos, depth - 1), self.mult(l, pos, depth - 1)
                if rr == "R" and ml == "A":
                    return "R"
            if mr == "N" or rl == "N":
                return "N"
            return None
        if k == "call" and e.get("name") in self.a_calls:
            # an absolute multiple is not start-relative unless start itself is one
            return "N"
        if k == "construct" and len(e.get("args", [])) == 1:
            return self.rel(e["args"][0], pos, depth - 1)
        return None
