#!/usr/bin/env python3
"""setup_cmd: build the libTooling extractor build/dsa from tool/dsa.cc (offline, ~15 s)."""
import os
import subprocess
import sys

HERE = os.path.dirname(os.path.dirname(os.path.abspath(__file__)))


def main():
    os.makedirs(os.path.join(HERE, "build"), exist_ok=True)
    src = os.path.join(HERE, "tool", "dsa.cc")
    out = os.path.join(HERE, "build", "dsa")
    if os.path.exists(out) and os.path.getmtime(out) >= os.path.getmtime(src) and "--force" not in sys.argv:
        print("build/dsa up to date")
        return 0
    cxxflags = subprocess.check_output(["llvm-config-14", "--cxxflags"], text=True).split()
    cmd = ["clang++"] + cxxflags + ["-fno-rtti", "-O1", src, "-o", out + ".tmp",
                                    "/usr/lib/llvm-14/lib/libclang-cpp.so.14", "/usr/lib/llvm-14/lib/libLLVM-14.so"]
    print(" ".join(cmd))
    rc = subprocess.call(cmd)
    if rc != 0:
        return rc
    os.replace(out + ".tmp", out)
    return 0


if __name__ == "__main__":
    sys.exit(main())
