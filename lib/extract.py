"""Run build/dsa over the translation units of a tier (in parallel, one JSON per unit) and load them.

Facts are cached under out/cache/<key>/ where key = sha256 of (every file under /repo/dispenso,
every driver, the dsa binary, the flag set): a cache hit therefore means the *current* /repo source
is byte-identical to the one the facts were extracted from; any edit to /repo re-extracts.
"""
import fcntl
import glob
import hashlib
import json
import os
import subprocess
import sys
import time
from concurrent.futures import ThreadPoolExecutor

from . import facts

VERIF = os.path.dirname(os.path.dirname(os.path.abspath(__file__)))
REPO = os.environ.get("DSA_REPO", "/repo")
DSA = os.path.join(VERIF, "build", "dsa")
OUT = os.path.join(VERIF, "out")

BASE_FLAGS = ["-I" + REPO, "-isystem", REPO + "/dispenso/third-party", "-Wno-everything"]
LIB_DEFS = ["-DDISPENSO_LIB_EXPORT", "-DDISPENSO_SHARED_LIB", "-Ddispenso_EXPORTS"]
GTEST_INC = ["-isystem", "/root/miniconda/include"]

CONFIGS = {
    "c14": ["-std=gnu++14", "-DNDEBUG"],          # the configuration the library is built in
    "c17": ["-std=gnu++17", "-DNDEBUG"],
    "c14dbg": ["-std=gnu++14", "-UNDEBUG"],
    "c17dbg": ["-std=gnu++17", "-UNDEBUG"],
    "tsan14": ["-std=gnu++14", "-DNDEBUG", "-fsanitize=thread"],  # parse flag only: makes the
    # DISPENSO_TSAN_ANNOTATE_* macros expand so that they are visible in the AST
}


class AnalysisBroken(Exception):
    pass


def library_units():
    srcs = sorted(glob.glob(REPO + "/dispenso/*.cpp") + glob.glob(REPO + "/dispenso/detail/*.cpp"))
    return srcs


def driver_units():
    return sorted(glob.glob(VERIF + "/drivers/*.cpp"))


def test_units():
    return sorted(glob.glob(REPO + "/tests/*.cpp"))


def fixture_units():
    return sorted(glob.glob(VERIF + "/fixtures/*.cpp"))


def _hash_tree():
    h = hashlib.sha256()
    files = []
    for root, _, names in os.walk(REPO + "/dispenso"):
        for n in names:
            if n.endswith((".h", ".cpp", ".hpp")):
                files.append(os.path.join(root, n))
    files += glob.glob(REPO + "/tests/*.cpp") + glob.glob(REPO + "/tests/*.h")
    files += glob.glob(VERIF + "/drivers/*") + glob.glob(VERIF + "/fixtures/*")
    files.append(DSA)
    for f in sorted(files):
        h.update(f.encode())
        try:
            with open(f, "rb") as fh:
                h.update(hashlib.sha256(fh.read()).digest())
        except OSError:
            h.update(b"<missing>")
    return h.hexdigest()[:24]


def _run_one(src, flags, outjson, roots):
    cmd = [DSA, "--dsa-out=" + outjson]
    for r in roots:
        cmd.append("--dsa-root=" + r)
    cmd.append("--dsa-exclude=" + REPO + "/dispenso/third-party")
    cmd.append(src)
    cmd.append("--")
    cmd += flags
    t0 = time.time()
    p = subprocess.run(cmd, stdout=subprocess.PIPE, stderr=subprocess.PIPE, text=True)
    return src, p.returncode, p.stderr[-4000:], time.time() - t0


HEAVY_DRIVERS = ("parfor.cpp",)   # only parsed by the checks that ask for them (DRIVERS = [...])


def unit_plan(tier, configs=None, drivers=None):
    """[(label, src, flags)]"""
    plan = []
    cfgs = configs or (["c14"] if tier == "quick" else ["c14", "c17", "c14dbg", "c17dbg"])
    for cfg in cfgs:
        cf = CONFIGS[cfg]
        for s in library_units():
            plan.append((cfg + ":" + s, s, cf + BASE_FLAGS + LIB_DEFS))
        for s in driver_units():
            base = os.path.basename(s)
            if drivers is None and base in HEAVY_DRIVERS and tier == "quick":
                continue
            if drivers is not None and base not in drivers:
                continue
            plan.append((cfg + ":" + s, s, cf + BASE_FLAGS + ["-I" + VERIF + "/drivers"]))
        if tier == "thorough" and cfg in ("c14", "c17"):
            for s in test_units():
                plan.append((cfg + ":" + s, s, cf + BASE_FLAGS + GTEST_INC + ["-I" + REPO + "/tests"]))
    return plan


def extract(tier="quick", configs=None, extra_units=None, jobs=16, drivers=None):
    """Returns (Facts, info). Raises AnalysisBroken if a unit fails to parse."""
    if not os.path.exists(DSA):
        raise AnalysisBroken("extractor %s missing: run the setup command (lib/build_tool.py)" % DSA)
    plan = unit_plan(tier, configs, drivers)
    if extra_units:
        plan += extra_units
    key = _hash_tree()
    cdir = os.path.join(OUT, "cache", key)
    os.makedirs(cdir, exist_ok=True)
    os.utime(cdir, None)
    roots = [REPO + "/dispenso/", VERIF + "/drivers/", VERIF + "/fixtures/"]
    lock = open(os.path.join(OUT, "cache", ".lock"), "w")
    fcntl.flock(lock, fcntl.LOCK_EX)
    t0 = time.time()
    todo = []
    outs = []
    try:
        for label, src, flags in plan:
            name = hashlib.sha1((label + " ".join(flags)).encode()).hexdigest()[:16] + ".json"
            oj = os.path.join(cdir, name)
            outs.append((label, oj))
            if not os.path.exists(oj):
                todo.append((label, src, flags, oj))
        failures = []
        if todo:
            with ThreadPoolExecutor(max_workers=jobs) as ex:
                futs = [ex.submit(_run_one, src, flags, oj + ".tmp", roots) for (_, src, flags, oj) in todo]
                for (label, src, flags, oj), fu in zip(todo, futs):
                    s, rc, err, dt = fu.result()
                    ok = rc == 0 and os.path.exists(oj + ".tmp")
                    if ok:
                        try:
                            with open(oj + ".tmp") as fh:
                                raw = json.load(fh)
                            if raw.get("errors", 0):
                                ok = False
                                err = "parse errors: %d\n%s" % (raw["errors"], err)
                        except Exception as e:  # truncated
                            ok = False
                            err = str(e)
                    if ok:
                        os.rename(oj + ".tmp", oj)
                    else:
                        failures.append((label, err))
                        try:
                            os.unlink(oj + ".tmp")
                        except OSError:
                            pass
        if failures:
            msg = "\n".join("%s:\n%s" % f for f in failures[:5])
            raise AnalysisBroken("%d unit(s) failed to parse:\n%s" % (len(failures), msg))
    finally:
        fcntl.flock(lock, fcntl.LOCK_UN)
        lock.close()
    pack = None
    if len(outs) > 40:
        pack = os.path.join(cdir, "pack_" + hashlib.sha1("|".join(o for _, o in outs).encode()).hexdigest()[:16] + ".marshal")
    F = facts.load(outs, pack=pack)
    if os.environ.get("DSA_NO_INLINE") != "1":
        facts.inline_single_use_helpers(F)
    info = {
        "units_parsed": len(outs),
        "units_extracted_now": len(todo),
        "tree_key": key,
        "extract_s": round(time.time() - t0, 2),
        "unit_list": [l for l, _ in outs],
        "functions": len(F.fns),
        "inlined_single_use_helpers": getattr(F, "inlined", []),
    }
    _prune_cache(os.path.join(OUT, "cache"), keep=key)
    return F, info


def _prune_cache(cache_root, keep, max_dirs=10):
    try:
        ds = [d for d in os.listdir(cache_root) if os.path.isdir(os.path.join(cache_root, d))]
        if len(ds) <= max_dirs:
            return
        ds.sort(key=lambda d: os.path.getmtime(os.path.join(cache_root, d)))
        import shutil
        now = time.time()
        for d in ds[:-max_dirs]:
            # never remove a directory another concurrent check may still be loading from
            if d != keep and now - os.path.getmtime(os.path.join(cache_root, d)) > 1800:
                shutil.rmtree(os.path.join(cache_root, d), ignore_errors=True)
    except OSError:
        pass
