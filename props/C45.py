"""C45 — threadId is stable per thread and unique across threads.

Obligations (together they imply the property up to 2^64 first calls; level 'proof' for this
structural argument):
  C45.cache-tls     the value returned by threadId() is read from a thread-local variable V;
  C45.write-once    every write to V in the whole program is inside threadId() and is dominated by
                    the branch edge 'V == <constant sentinel>' (so a thread assigns V at most once,
                    and later calls return the same value);
  C45.fresh-value   the value written is the result of an atomic read-modify-write fetch_add(k),
                    k a positive constant, on a namespace-scope (not thread-local) std::atomic;
  C45.counter-owner that counter is modified nowhere else in the parsed program.
"""
from lib.facts import Pos, const_val, expr_str, strip_casts, subexprs
from lib.rules import atomic_ops, comparison_of, lvalue_path, unwrap_assign

LEVEL = "proof"
EXPLANATION = __doc__
NOT_DECIDED = ["wrap-around after 2^64 first calls", "the sentinel value itself being handed out (needs 2^64 - 1 threads)"]
FN = "dispenso::threadId"
WHY = "stability needs a per-thread write-once cache; uniqueness needs one process-wide atomic counter"


def writes_to(fn, path_pred):
    out = []
    for pos, ev in fn.events():
        if ev.get("k") == "bin" and ev.get("op", "").endswith("=") and ev.get("op") not in ("==", "!=", "<=", ">="):
            l = strip_casts(ev.get("l"))
            if isinstance(l, dict) and l.get("k") == "var" and path_pred(l):
                out.append((pos, ev, l))
        if ev.get("k") == "un" and ev.get("op") in ("++", "--"):
            l = strip_casts(ev.get("e"))
            if isinstance(l, dict) and l.get("k") == "var" and path_pred(l):
                out.append((pos, ev, l))
    return out


def run(R):
    F = R.F
    fns = F.functions(qname=FN)
    if not R.need("C45", len(fns), 1, "definition of dispenso::threadId"):
        return
    fn = fns[0]
    rets = [(p, e) for p, e in fn.events() if e.get("k") == "return"]
    cache = None
    from lib.rules import same_value
    tls_writes = writes_to(fn, lambda v: v.get("vk") == "tls")
    for p, e in rets:
        v = strip_casts(e.get("e"))
        ok = isinstance(v, dict) and v.get("k") == "var" and v.get("vk") == "tls"
        det = "returns %s (%s)" % (expr_str(v), v.get("vk") if isinstance(v, dict) else "?")
        if ok:
            cache = v.get("qname")
        else:
            # `const id_t fresh = counter.fetch_add(1); cache = fresh; return fresh;` returns the value
            # it has just stored in the thread-local cache
            for wp, we, wl in tls_writes:
                if we.get("op") == "=" and fn.dominates(wp, p) and same_value(we.get("r"), v, fn):
                    ok = True
                    cache = cache or wl.get("qname")
                    det = "returns %s, the value just stored in the thread-local %s" % (expr_str(v), wl.get("name"))
        R.ob("C45.cache-tls", fn, e, ok, det, sitekey="return", why=WHY)
    R.need("C45.cache-tls", len(rets), 1, "return statements of threadId()")
    if cache is None:
        return
    # every write to the cache, anywhere
    nwrites = 0
    counter = None
    for g in F.fns:
        for pos, ev, l in writes_to(g, lambda v: v.get("qname") == cache):
            nwrites += 1
            inside = g.qname == FN
            guarded = False
            det = []
            if inside:
                for atom, pol, b in g.guard_atoms(pos):
                    c = comparison_of(atom, pol, lambda x: isinstance(x, dict) and x.get("k") == "var" and x.get("qname") == cache)
                    if c:
                        det.append("%s %s %s" % (cache.split("::")[-1], c[0], expr_str(c[1])))
                        if c[0] == "==" and const_val(c[1]) is not None:
                            guarded = True
            R.ob("C45.write-once", g, ev, inside and guarded and ev.get("op") == "=",
                 ("write guarded by " + "; ".join(det)) if det else ("write to the per-thread id outside threadId()" if not inside else "write not guarded by the 'unassigned' test"),
                 sitekey="write:" + cache.split("::")[-1], why=WHY)
            if inside and ev.get("op") == "=":
                r = strip_casts(g.expand_expr(ev.get("r"), use_block=pos.b))
                ok = False
                d = expr_str(r)
                if isinstance(r, dict) and r.get("k") == "call" and "atomic" in r and r["atomic"]["op"] == "fetch_add":
                    amt = const_val(r["args"][0]) if r.get("args") else None
                    obj = strip_casts(r.get("obj"))
                    if isinstance(obj, dict) and obj.get("k") == "var" and obj.get("vk") == "global" and amt is not None and amt >= 1:
                        ok = True
                        counter = obj.get("qname")
                    d = "fetch_add(%s) on %s (%s)" % (amt, expr_str(obj), obj.get("vk") if isinstance(obj, dict) else "?")
                R.ob("C45.fresh-value", g, ev, ok, d, sitekey="value", why=WHY)
    R.need("C45.write-once", nwrites, 1, "writes to the thread-local id")
    if counter is None:
        return
    nmods = 0
    for g in F.fns:
        for a in atomic_ops(F, g):
            if a.path == "global:" + counter and a.is_write:
                nmods += 1
                R.ob("C45.counter-owner", g, a.node, g.qname == FN and a.op == "fetch_add", "%s in %s" % (a.op, g.qname), sitekey="modify:" + counter.split("::")[-1], why=WHY)
    R.need("C45.counter-owner", nmods, 1, "modifications of the id counter")
