"""C10 — no data races under the weak memory model (publication-edge clause only).

This is not a race detector. It checks a table of happens-before edges that the algorithms need
(DESIGN.md appendix A), each confirmed by reading: weakening one of them *is* a data race in the C++
memory model; strengthening or adding operations never fires. An edge row names a field, the functions
whose accesses form the publisher or the observer side, the class of operation and the minimum order.
  C10.edge.<id>   every listed operation has at least the required order (relaxed < {acquire,
                  release} < acq_rel < seq_cst); rows marked any=k require at least k such operations
                  (other, weaker operations on the field in the same function are allowed).
  C10.fence       ChaseLevDeque: a seq_cst fence lies on every path between the bottom_ store and the
                  top_ load in try_pop*, and between the top_ load and the bottom_ load in try_steal*.
  C10.annot       parsed once more with -fsanitize=thread (parse flag only, so that the
                  DISPENSO_TSAN_ANNOTATE_* macros expand): every HAPPENS_BEFORE(a) is adjacent to an
                  atomic operation on a of order >= release and every HAPPENS_AFTER(a) to one of order
                  >= acquire (an annotation that *replaces* an ordering tells TSAN to assume an edge
                  the declared orders do not provide); IGNORE_*_BEGIN is matched by END on every path.
"""
import re
from lib import extract
from lib.facts import Pos, const_val, expr_str, is_call, order_at_least, strip_casts, subexprs
from lib.rules import atomic_ops, field_name, lvalue_path

LEVEL = "other"
EXPLANATION = __doc__
NOT_DECIDED = ["absence of races outside the edge table", "third-party moodycamel code", "TSAN's own verdicts", "non-Linux branches"]
D = "dispenso::"
DD = "dispenso::detail::"

# (id, field, function-qname regex (root function), op class, min order, min sites, any)
#   op class: W = store/operator=, R = load, RMW = read-modify-write, CAS = compare_exchange*, ANYW = W or RMW
EDGES = [
    ("A1.dec", D + "TaskSetBase::outstandingTaskCount_", r"TaskSetBase::packageTask(NoIncrement)?$", "RMW:fetch_sub", "release", 2, None),
    ("A1.fut", None, r"FutureImplBase::run$", "RMW:fetch_sub@taskSetCounter_", "release", 1, None),
    ("A1.wait", D + "TaskSetBase::outstandingTaskCount_", r"^dispenso::(TaskSet|ConcurrentTaskSet)::(wait|tryWait)$", "R", "acquire", 4, None),
    ("A2.set", D + "TaskSetBase::guardException_", r"TaskSetBase::trySetCurrentException$", "W", "release", 1, None),
    ("A2.get", D + "TaskSetBase::guardException_", r"TaskSetBase::testAndResetException$", "R", "acquire", 1, None),
    ("A3.pub", D + "ThreadPool::numRings_", r"ThreadPool::(\(ctor\)|resizeLocked)$", "W", "release", 2, None),
    ("A3.obs", D + "ThreadPool::numRings_", r"ThreadPool::(scheduleBulkToRings|tryExecuteNextFromRings)$", "R", "acquire", 2, 1),
    ("A4.pub", D + "ThreadPool::wakeState_", r"ThreadPool::(\(ctor\)|resizeLocked)$", "W", "release", 2, None),
    ("A5.pub", D + "MpmcRingBuffer::Slot::seq", r"MpmcRingBuffer::(emplaceImpl|try_push_batch|try_pop|try_pop_into)$", "W", "release", 4, None),
    ("A5.obs", D + "MpmcRingBuffer::Slot::seq", r"MpmcRingBuffer::(emplaceImpl|try_push_batch|try_pop|try_pop_into)$", "R", "acquire", 4, None),
    ("A7.pub", D + "SPSCRingBuffer::tail_", r"SPSCRingBuffer::(try_push|try_emplace|try_push_batch)$", "W", "release", 3, None),
    ("A7.obs", D + "SPSCRingBuffer::tail_", r"SPSCRingBuffer::(try_pop|try_pop_into|try_pop_batch)$", "R", "acquire", 3, None),
    ("A8.pub", D + "SPSCRingBuffer::head_", r"SPSCRingBuffer::(try_pop|try_pop_into|try_pop_batch)$", "W", "release", 3, None),
    ("A8.obs", D + "SPSCRingBuffer::head_", r"SPSCRingBuffer::(try_push|try_emplace|try_push_batch)$", "R", "acquire", 3, None),
    ("A9.pub", D + "ChaseLevDeque::bottom_", r"ChaseLevDeque::try_push$", "W", "release", 1, None),
    ("A9.obs", D + "ChaseLevDeque::bottom_", r"ChaseLevDeque::try_steal(_into)?$", "R", "acquire", 2, None),
    ("A10.cas", D + "ChaseLevDeque::top_", r"ChaseLevDeque::(try_pop|try_pop_into|try_steal|try_steal_into)$", "CAS", "seq_cst", 4, None),
    ("A10.obs", D + "ChaseLevDeque::top_", r"ChaseLevDeque::(try_push|try_steal|try_steal_into)$", "R", "acquire", 3, None),
    ("A12.pub", DD + "CompletionEventImpl::status_", r"CompletionEventImpl::notify$", "W", "release", 1, None),
    ("A12.obs", DD + "CompletionEventImpl::status_", r"(CompletionEventImpl::(wait|waitFor|waitUntil)|CompletionEvent::completed|FutureImplBase::(ready|waitCommon)|Latch::try_wait)$", "R", "acquire", 6, None),
    ("A12.ready", DD + "CompletionEventImpl::status_", r"FutureImplBase::setReady$", "W", "release", 1, None),
    ("A13", DD + "CompletionEventImpl::status_", r"(Latch::(count_down|arrive_and_wait)|CompletionGuard::\(dtor\))$", "RMW", "acq_rel", 3, None),
    ("A14.cas", DD + "FutureImplBase::thenChain_", r"FutureImplBase::(addToThenChainOrExecute|tryExecuteThenChain)$", "CAS", "acq_rel", 2, None),
    ("A14.obs", DD + "FutureImplBase::thenChain_", r"FutureImplBase::(addToThenChainOrExecute|tryExecuteThenChain)$", "R", "acquire", 2, None),
    ("A14.run", DD + "CompletionEventImpl::status_", r"FutureImplBase::run$", "CAS", "acq_rel", 1, None),
    ("A15", DD + "FutureImplBase::refCount_", r"FutureImplBase::decRefCountMaybeDestroy$", "RMW", "acq_rel", 1, None),
    ("A16.rmw", DD + "CompletionEventImpl::status_", r"RWLockImpl::(lock_shared|try_lock_shared|readerRelease|setWriteBit|tryWriteBit|try_lock|unlock|lock_upgrade|lock_downgrade)$", "RMW", "acq_rel", 9, None),
    ("A16.drain", DD + "CompletionEventImpl::status_", r"RWLockImpl::(try_lock|waitForReaderDrain)$", "R", "acquire", 1, None),
    ("A17.pub", D + "ConcurrentObjectArena::buffers_", r"ConcurrentObjectArena::(allocateBuffer|\(ctor\))$|^dispenso::swap$", "W", "release", 2, None),
    ("A17.obs", D + "ConcurrentObjectArena::buffers_", r"ConcurrentObjectArena::(operator\[\]|getBuffer|constructObjects)$", "R", "acquire", 3, None),
    ("A18.pub", D + "ConcurrentObjectArena::allocatedSize_", r"ConcurrentObjectArena::grow_by$", "W", "release", 1, None),
    ("A18.obs", D + "ConcurrentObjectArena::allocatedSize_", r"ConcurrentObjectArena::grow_by$", "R", "acquire", 1, 1),
    ("A19.pub", D + "cv::ConVecBufferBase::buffers_", r"cv::ConVecBuffer::(allocAsNecessaryImpl|tryAssignBuffer)$", "W", "release", 2, None),
    ("A19.obs", D + "cv::ConVecBufferBase::buffers_", r"cv::ConVecBuffer::(allocAsNecessaryImpl|tryAssignBuffer)$", "R", "acquire", 2, None),
    ("A20", DD + "GroupBlock::exitCounter", r"parallel_for_dynamicMultiGroupImpl$", "RMW", "acq_rel", 1, None),
    ("A21.run", D + "Node::numIncompletePredecessors_", r"^dispenso::Node::run$", "W", "release", 1, None),
    ("A22.pub", D + "AsyncRequest::state_", r"AsyncRequest::(tryEmplaceUpdate|getUpdate)$", "W", "release", 2, None),
    ("A22.cas", D + "AsyncRequest::state_", r"AsyncRequest::(tryEmplaceUpdate|getUpdate|requestUpdate)$", "CAS", "acq_rel", 3, None),
    ("A23.sba.acq", DD + "SmallBufferGlobals::backingStoreLock", r"SmallBufferAllocator::grabFromCentralStore$", "RMW", "acquire", 1, None),
    ("A23.sba.cas", DD + "SmallBufferGlobals::backingStoreLock", r"SmallBufferAllocator::bytesAllocated$", "CAS", "acquire", 1, None),
    ("A23.sba.rel", DD + "SmallBufferGlobals::backingStoreLock", r"SmallBufferAllocator::(bytesAllocated|grabFromCentralStore)$", "W", "release", 2, None),
    ("A23.pa.acq", D + "PoolAllocatorT::backingAllocLock_", r"PoolAllocatorT::(alloc|dealloc)$", "RMW", "acquire", 2, None),
    ("A23.pa.rel", D + "PoolAllocatorT::backingAllocLock_", r"PoolAllocatorT::(alloc|dealloc)$", "W", "release", 2, None),
    ("A24.cancel", DD + "TimedTaskImpl::flags", r"TimedTask::cancel$", "RMW", "seq_cst", 1, None),
    ("A24.check", DD + "TimedTaskImpl::flags", r"TimedTaskScheduler::kickOffTask$", "R", "seq_cst", 1, None),
    ("A24.announce", DD + "TimedTaskImpl::inProgress", r"TimedTaskScheduler::kickOffTask::InProgress::\(ctor\)$", "RMW:fetch_add", "seq_cst", 1, None),
    ("A24.drain", DD + "TimedTaskImpl::inProgress", r"TimedTask::\(dtor\)$", "R", "seq_cst", 1, None),
    ("A25.pipe.dec", None, r"OutstandingGuard::\(dtor\)$", "RMW:fetch_sub@outstanding_", "release", 1, None),
    ("A25.pipe.wait", DD + "LimitGatedScheduler::Impl::outstanding_", r"LimitGatedScheduler::Impl::wait$", "R", "acquire", 2, None),
]


def op_class_match(a, cls):
    base, _, rest = cls.partition(":")
    opname, _, fld = rest.partition("@")
    if base == "W" and not (a.op in ("store", "operator=")):
        return False
    if base == "R" and a.op not in ("load", "operator(conv)"):
        return False
    if base == "RMW" and not (a.is_rmw and not a.op.startswith("compare_exchange")):
        return False
    if base == "CAS" and not a.op.startswith("compare_exchange"):
        return False
    if opname and a.op != opname:
        return False
    if fld and not any(nn.get("k") == "member" and nn.get("fname") == fld for nn in subexprs(a.node.get("obj"))):
        return False
    return True


def run(R):
    F = R.F
    by_root = {}
    for fn in F.fns:
        by_root.setdefault(fn.root_parent().qname if not fn.qname.endswith("(dtor)") else fn.qname, []).append(fn)
    # ---- edge table --------------------------------------------------------------------------------
    for eid, field, frx, cls, want, min_sites, any_k in EDGES:
        rx = re.compile(frx)
        sites = []
        for fn in F.fns:
            root = fn.root_parent().qname
            if not (rx.search(fn.qname) or rx.search(root)):
                continue
            for a in atomic_ops(F, fn):
                if field is not None and a.field != field:
                    continue
                if a.op == "fence" or not op_class_match(a, cls):
                    continue
                sites.append((fn, a))
        inst = "C10.edge." + eid
        distinct = {(fn.pattern_key, a.loc) for fn, a in sites}
        if not R.need(inst, len(distinct), min_sites, "operations of class %s on %s in %s" % (cls, (field or "").split("::")[-1], frx)):
            continue
        good = [(fn, a) for fn, a in sites if order_at_least(a.success_order, want)]
        if any_k:
            gd = {(fn.pattern_key, a.loc) for fn, a in good}
            fn0, a0 = (good or sites)[0]
            R.ob(inst, fn0, a0.node, len(gd) >= any_k, "%d of %d %s operations have order >= %s (need %d)" % (len(gd), len(distinct), cls, want, any_k),
                 sitekey="any", why="publication edge %s of the happens-before table" % eid)
            continue
        for fn, a in sites:
            R.ob(inst, fn, a.node, order_at_least(a.success_order, want), "%s.%s [%s], needs >= %s" % ((a.field or "?").split("::")[-1], a.op, ",".join(a.orders), want),
                 sitekey="%s@%s" % (a.op, fn.qname.split("::")[-1]), why="publication edge %s of the happens-before table: a weaker order makes the guarded plain accesses a data race" % eid)

    # ---- ChaseLev fences -------------------------------------------------------------------------------
    n = 0
    for fn in F.functions(cls="dispenso::ChaseLevDeque"):
        nm = fn.qname.split("::")[-1]
        if nm not in ("try_pop", "try_pop_into", "try_steal", "try_steal_into"):
            continue
        ops = atomic_ops(F, fn)
        fences = {a.pos for a in ops if a.op == "fence" and a.orders and a.orders[0] == "seq_cst"}
        if nm.startswith("try_pop"):
            first = [a for a in ops if a.field == D + "ChaseLevDeque::bottom_" and a.op == "store"]
            second = [a for a in ops if a.field == D + "ChaseLevDeque::top_" and a.op == "load"]
            what = "bottom_ store -> fence(seq_cst) -> top_ load"
        else:
            first = [a for a in ops if a.field == D + "ChaseLevDeque::top_" and a.op == "load"]
            second = [a for a in ops if a.field == D + "ChaseLevDeque::bottom_" and a.op == "load"]
            what = "top_ load -> fence(seq_cst) -> bottom_ load"
        n += 1
        ok = bool(first) and bool(second) and bool(fences)
        if ok:
            f0 = min(first, key=lambda a: (-(a.pos.b), a.pos.i))
            # the first store/load that dominates the second operation
            cands = [a for a in first if any(fn.dominates(a.pos, s.pos) for s in second)]
            ok = bool(cands)
            for a in cands[:1]:
                for s in second:
                    if fn.dominates(a.pos, s.pos):
                        path = fn.path_to_exit_avoiding(a.pos, lambda p, e: p in fences, include_noreturn=True, targets=lambda p, e, s=s: p == s.pos)
                        if path is not None:
                            ok = False
        R.ob("C10.fence", fn, fn.loc, ok, what if ok else "no seq_cst fence on every path of: " + what, sitekey=nm, why="store->load ordering between owner and thieves needs a full fence on both sides (Chase-Lev)")
    R.need("C10.fence", n, 4, "ChaseLevDeque pop/steal functions")

    # ---- TSAN annotations ---------------------------------------------------------------------------------
    try:
        FT, infoT = extract.extract("quick", configs=["tsan14"])
    except extract.AnalysisBroken as e:
        R.broken.append("C10.annot: tsan parse failed: %s" % e)
        return
    R.info["units_parsed"] = R.info.get("units_parsed", 0) + infoT["units_parsed"]
    R.info["unit_list"] = R.info.get("unit_list", []) + infoT["unit_list"]
    nann = 0
    nign = 0
    for fn in FT.fns:
        if not fn.ploc.startswith(extract.REPO + "/dispenso"):
            continue
        evs = list(fn.events())
        ops = atomic_ops(FT, fn)
        for pos, ev in evs:
            if is_call(ev, DD + "annotateHappensBefore") or is_call(ev, DD + "annotateHappensAfter"):
                nann += 1
                before = ev["callee"].endswith("Before")
                addr = strip_casts(ev["args"][2]) if len(ev.get("args", [])) > 2 else None
                tgt = field_name(lvalue_path(FT, fn, addr)) if addr is not None else None
                want = "release" if before else "acquire"
                # candidate operations: atomic ops of this function, plus (one level) the atomic ops
                # performed by dispenso functions called in the annotation's block (e.g. event_.wait())
                cands = [(a.pos, a) for a in ops if a.op != "fence"]
                for p2, e2 in evs:
                    if p2.b == pos.b and e2.get("k") == "call" and (e2.get("callee") or "").startswith("dispenso::") and "annotate" not in e2["callee"]:
                        cf = FT.callee_fn(fn, e2)
                        if cf is not None:
                            cands += [(p2, a) for a in atomic_ops(FT, cf) if a.op != "fence"]
                if tgt and any(a.field == tgt for _, a in cands):
                    cands = [(p2, a) for p2, a in cands if a.field == tgt]
                near = []
                for p2, a in cands:
                    adj = (fn.dominates(pos, p2) and fn.postdominates(p2, pos)) if before else fn.dominates(p2, pos)
                    if adj or p2.b == pos.b:
                        near.append(a)
                ok = any(order_at_least(a.success_order, want) for a in near)
                det = "%s(%s): adjacent operations %s" % ("HAPPENS_BEFORE" if before else "HAPPENS_AFTER", (tgt or expr_str(addr)).split("::")[-1], [repr(a).split("::")[-1] for a in near])
                R.ob("C10.annot", fn, ev, ok, det, sitekey=("hb:" if before else "ha:") + re.sub(r"^var:\d+:", "", (tgt or lvalue_path(FT, fn, addr) or "?")).split("::")[-1],
                     why="a TSAN annotation must describe an edge the declared memory orders already provide, not replace one")
        begins = [(p, e) for p, e in evs if e.get("k") == "call" and re.search(r"annotateIgnore(Writes|Reads)Begin$", e.get("callee") or "")]
        for p, e in begins:
            nign += 1
            kind = "Writes" if "Writes" in e["callee"] else "Reads"
            path = fn.path_to_exit_avoiding(p, lambda pp, ee: ee.get("k") == "call" and (ee.get("callee") or "").endswith("annotateIgnore%sEnd" % kind))
            R.ob("C10.ignore-pair", fn, e, path is None, "IGNORE_%s_BEGIN matched by END on every path" % kind.upper() if path is None else "a path leaves the function with TSAN checking still suppressed",
                 sitekey="ignore@" + fn.qname.split("::")[-1], why="an unmatched IGNORE region blinds the race detector for the rest of the thread", path=fn.describe_path(path) if path else None)
    R.need("C10.annot", nann, 4, "HAPPENS_BEFORE/AFTER annotations (tsan parse)")
    R.need("C10.ignore-pair", nign, 6, "IGNORE_*_BEGIN annotations (tsan parse)")
