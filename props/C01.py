"""C01 — every task handed to a ThreadPool runs exactly once (ownership clause).

Decided, on every CFG path of every ThreadPool function instantiation in the parsed units:
  C01.linear        ownership typestate (K5) of every OnceFunction value and of the functor parameter of
                    every scheduling entry point: run inline once, or wrapped once and handed to
                    exactly one queue/ring sink; after a failed try_push the still-owned task reaches
                    another sink; every task obtained from a successful pop is run (or handed to
                    executeNext) on every path; nothing is run or moved twice.
  C01.inline-zero   the inline call in forceEnqueue is dominated by 'numThreads_ == 0'.
  C01.enq-fail      a failed enqueue to the central queue is not dropped: the normal exit of
                    enqueueToCentralQueue / scheduleBulkEnqueue is guarded by the enqueue result.
  C01.bulk-index    scheduleBulkImpl: the index advances by exactly what was handed on (1 after an
                    inline run; the count given to the bulk enqueue / placed loop otherwise).
  C01.bulk-once     a loop that runs gen(i) for every i in [0, count) is the last use of the generator
                    on its path (falling through to the general chunking loop runs every task twice).
  C01.batch-rest    scheduleBulkToRingsBatched: the tasks try_push_batch did not take (from the
                    returned count up to the staged count) are handed to the central queue.
  C01.dtor-drain    ~ThreadPool: each of the three tiers (central queue, per-thread rings, steal
                    rings) is drained after the worker threads are joined, the ring loops cover the
                    whole arena, and from every task run by those drains a drain of *each* tier is
                    still reachable (a drained task may schedule more work into any tier).
"""
import re
from lib import typestate
from lib.facts import Pos, const_val, expr_str, is_call, strip_casts, strip_move, subexprs
from lib.rules import atomic_ops, body_invocations, comparison_of, lvalue_path, field_name, same_value

LEVEL = "other"
EXPLANATION = __doc__
NOT_DECIDED = ["delivery inside moodycamel::ConcurrentQueue (trusted)", "delivery inside MpmcRingBuffer (see C34)", "interleavings of producers with workers and the destructor"]
ENTRY = ("schedule", "schedulePlaced", "forceEnqueue")
WHY = "a functor handed to the pool must be invoked exactly once, no later than the return of the destructor"


def short(e):
    return "%s at %s" % (e.get("name") or e.get("k"), (e.get("loc") or "?").rsplit("/", 1)[-1])


def in_scope(fn):
    r = fn.root_parent().qname
    return r.startswith("dispenso::ThreadPool::") or r.startswith("dispenso::detail::BulkGenIter")


def run(R):
    F = R.F
    # ---- K5 -------------------------------------------------------------------------------------
    nfun = 0
    for fn in F.fns:
        if not in_scope(fn):
            continue
        tracked, owned = typestate.once_function_vars(fn)
        fp = typestate.functor_params(fn, forwarders=ENTRY)
        tr = dict(tracked)
        tr.update(fp)
        if not tr:
            continue
        nfun += 1
        L = typestate.Linear(F, fn, tr, by_ref_params=fp.keys(), allow_drop_when_cancelled=False)
        vios, stats = L.run(owned_params=list(owned) + list(fp.keys()))
        R.paths_enumerated += stats["state_block_pairs"]
        names = ",".join(sorted(set(tr.values())))
        if not vios:
            R.ob("C01.linear", fn, fn.loc, True, "%s: %d (block,state) pairs explored, every path consumes each task exactly once" % (names, stats["state_block_pairs"]),
                 sitekey="vars:" + names, why=WHY)
        for v in vios:
            if v.get("inconclusive"):
                R.inconclusive("C01.linear", "%s: %s" % (fn.where(), v["msg"]))
                continue
            R.ob("C01.linear", fn, (v["ev"] or {}).get("loc") or fn.loc, False, v["msg"], sitekey="vars:" + names, why=WHY,
                 path=fn.describe_path(v["trail"][-10:]))
    R.need("C01.linear", nfun, 14, "ThreadPool functions holding OnceFunction values or functor parameters")

    # ---- forceEnqueue inline only on a zero-thread pool -----------------------------------------
    n = 0
    for fn in F.functions(qname="dispenso::ThreadPool::forceEnqueue"):
        for pos, ev, var, via in body_invocations(fn, var_kinds=("param",)):
            n += 1
            ok = False
            det = []
            for atom, pol, b in fn.guard_atoms(pos):
                a = strip_casts(atom)
                if isinstance(a, dict) and a.get("k") == "call" and "atomic" in a and field_name(lvalue_path(F, fn, a.get("obj"))) == "dispenso::ThreadPool::numThreads_":
                    det.append("numThreads_.load() is %s" % ("non-zero" if pol else "zero"))
                    if not pol:
                        ok = True
                c = comparison_of(atom, pol, lambda x: isinstance(x, dict) and x.get("k") == "call" and "atomic" in x and field_name(lvalue_path(F, fn, x.get("obj"))) == "dispenso::ThreadPool::numThreads_")
                if c and c[0] == "==" and const_val(c[1]) == 0:
                    ok = True
            R.ob("C01.inline-zero", fn, ev, ok, "; ".join(det) or "inline call not guarded by the thread count", sitekey="f()",
                 why="a force-queued functor may run on the caller only when the pool has no thread that could run it")
    R.need("C01.inline-zero", n, 1, "inline invocation in forceEnqueue")

    # ---- enqueue failure is not dropped ------------------------------------------------------------
    n = 0
    for q in ("dispenso::ThreadPool::enqueueToCentralQueue", "dispenso::ThreadPool::scheduleBulkEnqueue"):
        for fn in F.functions(qname=q):
            res_vars = set()
            for pos, ev in fn.events():
                if ev.get("k") == "bin" and ev.get("op") == "=":
                    r = strip_casts(ev.get("r"))
                    l = strip_casts(ev.get("l"))
                    if isinstance(r, dict) and r.get("k") == "call" and re.search(r"::enqueue(_bulk)?$", r.get("callee") or "") and isinstance(l, dict) and l.get("k") == "var":
                        res_vars.add(l["vid"])
                if ev.get("k") == "decl" and isinstance(ev.get("init"), dict):
                    r = strip_casts(ev["init"])
                    if r.get("k") == "call" and re.search(r"::enqueue(_bulk)?$", r.get("callee") or ""):
                        res_vars.add(ev["vid"])
            n += 1
            ok = False
            for atom, pol, b in fn.guard_atoms(Pos(fn.exit, 0)):
                a = strip_casts(atom)
                if isinstance(a, dict) and a.get("k") == "var" and a.get("vid") in res_vars and pol:
                    ok = True
            R.ob("C01.enq-fail", fn, fn.loc, ok and bool(res_vars), "normal exit requires the enqueue result to be true (failure throws/aborts)" if ok else "a failed enqueue can reach the normal exit: the task is silently dropped",
                 sitekey="exit", why="moodycamel's enqueue returns false on allocation failure; the task must not vanish")
    R.need("C01.enq-fail", n, 2, "central-queue enqueue functions")

    # ---- bulk index induction ---------------------------------------------------------------------------
    n = 0
    for fn in F.functions(qname="dispenso::ThreadPool::scheduleBulkImpl"):
        # index variable: the local that the generator is called with inside the main loop
        for pos, ev in fn.events():
            if ev.get("k") != "call":
                continue
            # inline run gen(i)()
            if ev.get("opcall") == "()" and ev.get("type") == "void":
                inner = strip_move(ev.get("obj"))
                if isinstance(inner, dict) and inner.get("k") == "call" and inner.get("opcall") == "()" and inner.get("args"):
                    idx = strip_casts(inner["args"][0])
                    if isinstance(idx, dict) and idx.get("k") == "var" and ev.get("loop"):
                        n += 1
                        vid = idx["vid"]
                        def is_inc1(p, e, vid=vid):
                            return e.get("k") == "un" and e.get("op") == "++" and strip_casts(e.get("e")).get("vid") == vid
                        def is_other_write(p, e, vid=vid):
                            if e.get("k") == "bin" and e.get("op") in ("=", "+=", "-=") and strip_casts(e.get("l")).get("vid") == vid:
                                return True
                            return False
                        # no path from the run to the next run/exit without ++i
                        path = fn.path_to_exit_avoiding(pos, is_inc1, targets=lambda p, e, me=ev: e.get("sid") == me.get("sid"))
                        path2 = fn.path_to_exit_avoiding(pos, is_inc1)
                        ok = path is None and path2 is None
                        R.ob("C01.bulk-index", fn, ev, ok, "inline run of gen(%s)() is followed by ++%s on every path" % (idx["name"], idx["name"]) if ok else "index not advanced by one after an inline run (task repeated or skipped)",
                             sitekey="inline:gen(i)()", why=WHY)
            if is_call(ev, "dispenso::ThreadPool::scheduleBulkEnqueue") and ev.get("args"):
                cnt = strip_casts(ev["args"][0])
                n += 1
                def adds_cnt(p, e, cnt=cnt):
                    return e.get("k") == "bin" and e.get("op") == "+=" and same_value(e.get("r"), cnt)
                path = fn.path_to_exit_avoiding(pos, adds_cnt)
                R.ob("C01.bulk-index", fn, ev, path is None, "the count handed to scheduleBulkEnqueue (%s) is added to the index on every path" % expr_str(cnt) if path is None else "index not advanced by the enqueued count",
                     sitekey="bulk:enqueue", why=WHY)
    R.need("C01.bulk-index", n, 3, "index updates in scheduleBulkImpl")

    # ---- a loop that covers the whole generator range is final ------------------------------------------
    # `for (i = 0; i < count; ++i) gen(i)...` hands on every task of the batch; if control can go on
    # from there to another site that invokes the generator, every task is produced (and run) twice.
    from lib.rules import natural_loops, loop_exit_edges, single_def_value
    n = 0
    for fn in F.fns:
        if not (fn.qname.startswith("dispenso::ThreadPool::scheduleBulk") or fn.qname.startswith("dispenso::TaskSetBase::scheduleBulk")):
            continue
        gens = [prm["vid"] for prm in fn.params if prm.get("name") == "gen"]
        cnts = [prm["vid"] for prm in fn.params if prm.get("name") == "count"]
        if not gens or not cnts:
            continue
        def is_gen_call(e):
            if e.get("k") != "call" or e.get("opcall") != "()":
                return False
            o = strip_move(e.get("obj"))
            return isinstance(o, dict) and o.get("k") == "var" and o.get("vid") == gens[0]
        def uses_gen(e):
            return is_gen_call(e) or (e.get("k") in ("call", "construct", "lambda") and any(isinstance(x, dict) and x.get("k") == "var" and x.get("vid") == gens[0] for x in subexprs(e)))
        for h, body, tails in natural_loops(fn):
            t = fn.term(h) or {}
            c = comparison_of(t.get("cond"), True, lambda x: isinstance(strip_casts(x), dict) and strip_casts(x).get("k") == "var")
            if not (c and c[0] in ("<", "!=") and isinstance(strip_casts(c[1]), dict) and strip_casts(c[1]).get("vid") == cnts[0]):
                continue
            iv = strip_casts(c[2])
            # induction variable starts at 0 and only ever advances by one: the loop visits every index
            from lib.rules import local_defs
            defs = local_defs(fn, iv.get("vid"))
            full = any(d[2] == "decl" and const_val(d[1]) == 0 for d in defs) and all(d[2] in ("decl", "++") for d in defs)
            calls_in = [(p, e) for p, e in fn.events() if p.b in body and is_gen_call(e)]
            if not full or not calls_in:
                continue
            n += 1
            later = None
            for (b, i, sb) in loop_exit_edges(fn, body):
                reach = fn.reachable_blocks(start=sb)
                for p, e in fn.events():
                    if p.b in reach and p.b not in body and uses_gen(e):
                        later = e
            R.ob("C01.bulk-once", fn, calls_in[0][1], later is None, "the loop over [0, count) is the last use of the generator on its path" if later is None else
                 "after the loop that runs gen(i) for every i in [0, count) control reaches another use of the generator (%s): every task of the batch is run twice" % short(later),
                 sitekey="full-range-loop", why=WHY)
    R.need("C01.bulk-once", n, 1, "full-range generator loops in scheduleBulk*")

    # ---- batched ring push: the remainder goes to the central queue ------------------------------------
    n = 0
    for fn in F.functions(qname="dispenso::ThreadPool::scheduleBulkToRingsBatched"):
        for pos, ev in fn.events():
            if ev.get("k") == "decl" and isinstance(ev.get("init"), dict):
                c = strip_casts(ev["init"])
                if c.get("k") == "call" and (c.get("callee") or "").endswith("::try_push_batch"):
                    n += 1
                    pushed_vid = ev["vid"]
                    arr = strip_casts(c["args"][0]) if c.get("args") else None
                    total = strip_casts(c["args"][1]) if len(c.get("args", [])) > 1 else None
                    # a loop whose induction variable starts at 'pushed', runs while < total, and sinks arr[j]
                    ok = False
                    det = "no loop hands staged[pushed..n) to the central queue"
                    for p2, e2 in fn.events():
                        if e2.get("k") == "decl" and isinstance(e2.get("init"), dict) and strip_casts(e2["init"]).get("vid") == pushed_vid and fn.dominates(pos, p2):
                            j = e2["vid"]
                            bound_ok = False
                            for b, t in fn.branch_blocks():
                                cmpc = comparison_of(t["cond"], True, lambda x: isinstance(x, dict) and x.get("k") == "var" and x.get("vid") == j)
                                if cmpc and cmpc[0] == "<" and same_value(cmpc[1], total):
                                    bound_ok = True
                            sink_ok = False
                            for p3, e3 in fn.events():
                                if is_call(e3, "dispenso::ThreadPool::enqueueToCentralQueue") and e3.get("loop"):
                                    for nn in subexprs(e3):
                                        if nn.get("k") == "index" and strip_casts(nn.get("idx")).get("vid") == j and same_value(nn.get("base"), arr):
                                            sink_ok = True
                            ok = bound_ok and sink_ok
                            det = "for (j = pushed; j < %s; ++j) enqueueToCentralQueue(staged[j])" % expr_str(total) if ok else "remainder loop found but bound/sink do not match"
                    R.ob("C01.batch-rest", fn, ev, ok, det, sitekey="try_push_batch", why=WHY)
    R.need("C01.batch-rest", n, 1, "try_push_batch site")

    # ---- destructor drain ----------------------------------------------------------------------------------
    n = 0
    for fn in F.functions(qname="dispenso::ThreadPool::(dtor)"):
        joins = [(p, e) for p, e in fn.events() if is_call(e, "std::thread::join")]
        tiers = {"central": [], "rings": [], "steal": []}
        for p, e in fn.events():
            if is_call(e, "dispenso::ThreadPool::tryExecuteNext"):
                tiers["central"].append((p, e))
            if e.get("k") == "call" and e.get("opcall") == "()" and e.get("type") == "void":
                o = strip_move(e.get("obj"))
                if isinstance(o, dict) and o.get("k") == "var" and o.get("ctype") == "dispenso::OnceFunction":
                    # which ring tier feeds this variable: the try_pop in the guarding loop condition
                    for atom, pol, b in fn.guard_atoms(p):
                        a = strip_casts(atom)
                        if isinstance(a, dict) and a.get("k") == "call" and (a.get("callee") or "").endswith("::try_pop") and pol:
                            fld = field_name(lvalue_path(F, fn, a.get("obj")))
                            if fld == "dispenso::ThreadPool::rings_":
                                tiers["rings"].append((p, e))
                            elif fld == "dispenso::ThreadPool::stealRings_":
                                tiers["steal"].append((p, e))
        n += 1
        R.ob("C01.dtor-drain", fn, fn.loc, bool(joins), "%d join site(s)" % len(joins), sitekey="join", why=WHY)
        after = {}
        for t, sites in tiers.items():
            # drain sites that are after the joins: reachable from a join, and no join reachable from them
            aft = [(p, e) for p, e in sites if joins and any(fn.can_reach(jp, p) for jp, _ in joins) and not any(fn.can_reach(p, jp) for jp, _ in joins)]
            after[t] = aft
            R.ob("C01.dtor-drain", fn, (aft[0][1] if aft else fn.loc), bool(aft),
                 "tier '%s' is drained after the worker threads are joined" % t if aft else "tier '%s' is not drained after the joins: tasks left there are destroyed unrun" % t,
                 sitekey="after-join:" + t, why=WHY)
        # fixpoint: from every post-join run site every tier's drain is reachable again
        for t, sites in after.items():
            for p, e in sites:
                missing = [t2 for t2, s2 in after.items() if not any(fn.can_reach(p, p2) or p2 == p and fn.can_reach(p, p) for p2, _ in s2)]
                R.ob("C01.dtor-drain", fn, e, not missing,
                     "after a task from tier '%s' runs, every tier can still be drained" % t if not missing else
                     "a task run from tier '%s' may schedule work into tier(s) %s, which are not drained afterwards" % (t, ",".join(missing)),
                     sitekey="fixpoint:" + t, why="a task run by the destructor's drain can itself hand new tasks to the pool")
        # ring loops cover the whole arena
        for fld, t in (("dispenso::ThreadPool::rings_", "rings"), ("dispenso::ThreadPool::stealRings_", "steal")):
            ok = False
            for b, tm in fn.branch_blocks():
                c = strip_casts(tm["cond"])
                if isinstance(c, dict) and c.get("k") == "bin" and c.get("op") == "<":
                    r = strip_casts(c.get("r"))
                    if isinstance(r, dict) and r.get("k") == "call" and r.get("name") == "size" and field_name(lvalue_path(F, fn, r.get("obj"))) == fld:
                        ok = True
            R.ob("C01.dtor-drain", fn, fn.loc, ok, "loop over %s is bounded by its full size()" % fld.split("::")[-1] if ok else "no loop bounded by %s.size()" % fld.split("::")[-1],
                 sitekey="bound:" + t, why="rings beyond the current thread count (shadow entries after a resize) may still hold tasks")
    R.need("C01.dtor-drain", n, 1, "ThreadPool destructor")
