"""C18 — a Future's functor runs once and every getter sees its result (gate + lifetime clauses).

Decided on every CFG path (all Future instantiations of drivers/future.cpp):
  C18.gate        runFunc() is called only from FutureImplBase::run(int) and only on the edge where the
                  compare-exchange kNotStarted -> kRunning on the status word succeeded.
  C18.publish     in run(int): runFunc() -> notify(kReady) -> (set counter) -> then-chain, in that order.
  C18.wait-ready  FutureImplBase::wait() returns only after waitCommon() reported completion or after
                  the blocking CompletionEventImpl::wait(kReady) (whose own exit condition is C21's);
                  waitCommon() returns true only if it loaded kReady (acquire) or ran the functor
                  itself; Future::get() reads the result only after wait().
  C18.schedule-once every scheduling FutureBase constructor hands makeOnceFunction() to its
                  schedulable exactly once on every path.
  C18.refcount    decRefCountMaybeDestroy() frees only when its own decrement returned 1; run() drops
                  exactly one reference after running; copying a handle adds one; destroying,
                  move-assigning or copy-assigning a handle drops the old one exactly once.
"""
import re
from lib import dataflow
from lib.facts import Pos, const_val, expr_str, is_call, order_at_least, strip_casts, strip_move, subexprs
from lib.rules import (atomic_ops, callers_of, comparison_of, field_name, guard_comparisons, is_atomic_node, lvalue_path)

LEVEL = "other"
EXPLANATION = __doc__
NOT_DECIDED = ["interleavings of concurrent waiters (needs the atomicity of the CAS, which is the language's)", "that get() returns the same object for every caller as a value property"]
STATUS = "dispenso::detail::CompletionEventImpl::status_"
REF = "dispenso::detail::FutureImplBase::refCount_"
KREADY = 2
WHY = "the functor must execute exactly once and a getter may read the result only after it is complete"


def count_calls_on_paths(fn, pred):
    """set of possible numbers (capped at 2) of pred-events executed on entry->exit paths"""
    res = set()
    def transfer(pos, ev, st):
        return min(st + 1, 2) if pred(pos, ev) else st
    def at_exit(st):
        res.add(st)
        return None
    dataflow.run(fn, 0, transfer, None, at_exit)
    return res


def run(R):
    F = R.F
    # ---- gate ----------------------------------------------------------------------------------------
    n = 0
    for fn, pos, ev in callers_of(F, r"::runFunc$"):
        n += 1
        ok = fn.qname == "dispenso::detail::FutureImplBase::run" and bool(fn.params)
        det = "called from %s" % fn.qname
        if ok:
            g = False
            for at, pol, b in fn.guard_atoms(pos):
                a = strip_casts(at)
                if pol and is_atomic_node(F, fn, a, STATUS, ("compare_exchange_weak", "compare_exchange_strong")):
                    want = const_val(a["args"][1]) if len(a.get("args", [])) > 1 else None
                    if want == 1:
                        g = True
            ok = g
            det = "guarded by a successful compare_exchange(kNotStarted -> kRunning)" if g else "not guarded by the status CAS: two threads can both run the functor"
        R.ob("C18.gate", fn, ev, ok, det, sitekey="runFunc", why=WHY)
    R.need("C18.gate", n, 1, "call sites of runFunc")

    # ---- publish order -------------------------------------------------------------------------------------
    n = 0
    for fn in F.functions(qname="dispenso::detail::FutureImplBase::run"):
        if not fn.params:
            continue
        runs = [(p, e) for p, e in fn.events() if e.get("k") == "call" and e.get("name") == "runFunc"]
        nots = [(p, e) for p, e in fn.events() if is_call(e, "dispenso::detail::CompletionEventImpl::notify")]
        chain = [(p, e) for p, e in fn.events() if e.get("k") == "call" and e.get("name") == "tryExecuteThenChain"]
        n += 1
        ok = len(runs) == 1 and len(nots) == 1 and len(chain) == 1 and fn.dominates(runs[0][0], nots[0][0]) and fn.dominates(nots[0][0], chain[0][0]) \
            and const_val(nots[0][1]["args"][0]) == KREADY and fn.postdominates(nots[0][0], runs[0][0])
        R.ob("C18.publish", fn, nots[0][1] if nots else fn.loc, ok, "runFunc -> notify(kReady) -> tryExecuteThenChain" if ok else "result publication order broken in run()", sitekey="run", why=WHY)
    R.need("C18.publish", n, 1, "FutureImplBase::run(int)")

    # ---- readers ----------------------------------------------------------------------------------------------
    n = 0
    for fn in F.functions(qname="dispenso::detail::FutureImplBase::wait"):
        n += 1
        def blocks_until_ready(p, e):
            return is_call(e, "dispenso::detail::CompletionEventImpl::wait") and e.get("args") and const_val(e["args"][0]) == KREADY
        # paths that do not pass the blocking wait must have seen waitCommon() == true
        bad = None
        rets = [Pos(fn.exit, 0)]
        # remove the edge 'waitCommon() true' and ask whether the exit is reachable without the blocking wait
        removed = fn.edges_where(lambda a: isinstance(strip_casts(a), dict) and strip_casts(a).get("k") == "call" and strip_casts(a).get("name") == "waitCommon", True)
        path = fn.path_to_exit_avoiding(Pos(fn.entry, -1), blocks_until_ready, removed_edges=removed)
        R.ob("C18.wait-ready", fn, fn.loc, path is None and bool(removed), "returns only after waitCommon() == true or CompletionEventImpl::wait(kReady)" if path is None else
             "wait() can return without having observed kReady (e.g. after a single futex wake)", sitekey="wait", why=WHY, path=fn.describe_path(path) if path else None)
    for fn in F.functions(qname="dispenso::detail::FutureImplBase::waitCommon"):
        n += 1
        rets = [(p, e) for p, e in fn.events() if e.get("k") == "return"]
        ok = bool(rets)
        for p, e in rets:
            x = strip_casts(e.get("e"))
            # s == kReady || (allowInline && run(s))
            good = False
            if isinstance(x, dict) and x.get("k") == "bin" and x.get("op") == "||":
                l, r = strip_casts(x.get("l")), strip_casts(x.get("r"))
                lc = isinstance(l, dict) and l.get("k") == "bin" and l.get("op") == "==" and KREADY in (const_val(l.get("l")), const_val(l.get("r")))
                rc = isinstance(r, dict) and any(nn.get("k") == "call" and nn.get("name") == "run" for nn in subexprs(r)) and (r.get("k") == "call" or r.get("op") == "&&")
                good = lc and rc
            ok = ok and good
        loads = [a for a in atomic_ops(F, fn) if a.field == STATUS and a.op == "load"]
        ok = ok and bool(loads) and all(order_at_least(a.success_order, "acquire") for a in loads)
        R.ob("C18.wait-ready", fn, fn.loc, ok, "true only for an acquire-loaded kReady or a successful inline run" if ok else "waitCommon can report completion without kReady", sitekey="waitCommon", why=WHY)
    for fn in F.functions(qname="dispenso::Future::get"):
        res = [(p, e) for p, e in fn.events() if e.get("k") == "call" and e.get("name") == "result"]
        ws = [(p, e) for p, e in fn.events() if e.get("k") == "call" and e.get("name") == "wait"]
        n += 1
        ok = bool(ws) and all(any(fn.dominates(wp, p) for wp, _ in ws) for p, _ in res)
        R.ob("C18.wait-ready", fn, fn.loc, ok, "result() read after wait()" if ok else "get() can read the result without waiting", sitekey="get", why=WHY)
    R.need("C18.wait-ready", n, 4, "wait / waitCommon / get")

    # ---- constructors schedule once -----------------------------------------------------------------------------------
    n = 0
    for fn in F.functions(qname="dispenso::detail::FutureBase::(ctor)"):
        mk = [(p, e) for p, e in fn.events() if e.get("k") == "call" and e.get("name") == "makeOnceFunction"]
        if not mk:
            continue
        n += 1
        def is_sched(p, e):
            return e.get("k") == "call" and e.get("name") in ("schedule", "schedulePlaced") and any(nn.get("k") == "call" and nn.get("name") == "makeOnceFunction" for nn in subexprs(e))
        counts = count_calls_on_paths(fn, is_sched)
        R.ob("C18.schedule-once", fn, fn.loc, counts == {1}, "every path schedules the run exactly once" if counts == {1} else "paths schedule the run %s times" % sorted(counts), sitekey="ctor", why=WHY)
    R.need("C18.schedule-once", n, 4, "scheduling FutureBase constructors")

    # ---- refcount ----------------------------------------------------------------------------------------------------------
    n = 0
    for fn in F.functions(qname="dispenso::detail::FutureImplBase::decRefCountMaybeDestroy"):
        subs = [a for a in atomic_ops(F, fn) if a.field == REF and a.op == "fetch_sub"]
        dl = [(p, e) for p, e in fn.events() if e.get("k") == "call" and e.get("name") == "dealloc"]
        n += 1
        ok = len(subs) == 1 and len(dl) == 1
        if ok:
            sid = subs[0].node["sid"]
            ok = any(op == "==" and const_val(other) == const_val(subs[0].node["args"][0]) == 1 for op, other, side, b in guard_comparisons(fn, dl[0][0], lambda x: isinstance(x, dict) and x.get("sid") == sid))
        R.ob("C18.refcount", fn, dl[0][1] if dl else fn.loc, ok, "dealloc() only when this decrement took the count from 1 to 0" if ok else "dealloc() not tied to the last reference", sitekey="dealloc", why="the implementation must outlive every handle and the queued run")
    for fn in F.functions(qname="dispenso::detail::FutureImplBase::run"):
        if fn.params:
            continue
        n += 1
        counts = count_calls_on_paths(fn, lambda p, e: e.get("k") == "call" and e.get("name") == "decRefCountMaybeDestroy")
        after = all(fn.dominates(rp, dp) for rp, re_ in fn.events() if re_.get("k") == "call" and re_.get("name") == "run" for dp, de in fn.events() if de.get("k") == "call" and de.get("name") == "decRefCountMaybeDestroy")
        R.ob("C18.refcount", fn, fn.loc, counts == {1} and after, "the queued run drops exactly one reference, after running" if counts == {1} and after else "run() drops %s references" % sorted(counts), sitekey="run()", why=WHY)
    for q, want_dec, want_inc in (("dispenso::detail::FutureBase::(dtor)", {0, 1}, None), ("dispenso::detail::FutureBase::move", {0, 1}, None), ("dispenso::detail::FutureBase::copy", {0, 1}, {0, 1})):
        for fn in F.functions(qname=q):
            n += 1
            decs = count_calls_on_paths(fn, lambda p, e: e.get("k") == "call" and e.get("name") == "decRefCountMaybeDestroy")
            ok = decs <= want_dec and 1 in decs
            # the decrement is guarded by a non-null old impl_
            R.ob("C18.refcount", fn, fn.loc, ok, "old implementation released at most once (paths: %s)" % sorted(decs), sitekey=q.split("::")[-1], why=WHY)
    for fn in F.functions(qname="dispenso::detail::FutureBase::(ctor)"):
        pt = fn.params[0].get("type", "").strip() if len(fn.params) == 1 else ""
        # the copy constructor: `const FutureBase<R> &` (not `FutureBase<const int &> &&`, the move
        # constructor of a future of a const reference)
        if pt.startswith("const ") and "FutureBase" in pt and pt.endswith("&") and not pt.endswith("&&"):
            n += 1
            incs = count_calls_on_paths(fn, lambda p, e: e.get("k") == "call" and e.get("name") == "incRefCount")
            R.ob("C18.refcount", fn, fn.loc, incs <= {0, 1} and 1 in incs, "copying a handle adds one reference (paths: %s)" % sorted(incs), sitekey="copy-ctor", why=WHY)
    R.need("C18.refcount", n, 6, "reference count sites")
