"""C41 — SmallBufferAllocator hands out exclusive aligned blocks (lock and cache-bound clauses).

Decided on every CFG path of every SmallBufferAllocator<N> instantiation (N = 4..256):
  C41.lock.held / .released   K7 on the spin lock backingStoreLock protecting backingStore in
                   bytesAllocated() and grabFromCentralStore(): every access to backingStore is inside a
                   region entered through a valid, tested acquire, and the lock is released on every
                   path afterwards. (A compare-exchange that retries with the value it just observed
                   'acquires' a held lock.)
  C41.tl-bounds    the thread-local cache index stays inside tlBuffers[kMaxNumTLBuffers]: alloc()
                   refills when the count is zero before it pre-decrements; dealloc() recycles as soon
                   as the post-incremented count reaches kMaxNumTLBuffers.
  C41.refill-count grabFromCentralStore returns exactly the number of cache slots it filled (the bulk
                   dequeue result, or K after a loop that writes buffers[0..K)).
  C41.cleanup      the per-thread queuing data's destructor returns the cached blocks to the central
                   store.
"""
from lib import lockregion
from lib.facts import Pos, const_val, expr_str, is_call, strip_casts, subexprs
from lib.rules import comparison_of, field_name, lvalue_path

LEVEL = "other"
EXPLANATION = __doc__
NOT_DECIDED = ["block exclusivity across the moodycamel central store", "alignment of the slabs (see C39's witness)"]
LOCK = "dispenso::detail::SmallBufferGlobals::backingStoreLock"
PROT = {"dispenso::detail::SmallBufferGlobals::backingStore"}
WHY = "backingStore is a std::vector mutated under the spin lock; entering the region without holding it is a data race on the vector"


def run(R):
    F = R.F
    n = 0
    for fn in F.functions(cls="dispenso::detail::SmallBufferAllocator"):
        if fn.qname.split("::")[-1] in ("bytesAllocated", "grabFromCentralStore"):
            n += lockregion.analyse(F, fn, LOCK, PROT, R, "C41.lock", WHY)
    R.need("C41.lock", n, 2, "accesses to backingStore")

    nb = 0
    for fn in F.functions(qname="dispenso::detail::SmallBufferAllocator::alloc"):
        for pos, ev in fn.events():
            if ev.get("k") == "return":
                x = strip_casts(ev.get("e"))
                if isinstance(x, dict) and x.get("k") == "index":
                    i = strip_casts(x.get("idx"))
                    if isinstance(i, dict) and i.get("k") == "un" and i.get("op") == "--" and not i.get("postfix"):
                        cnt = strip_casts(i.get("e"))
                        nb += 1
                        # every path to here with count == 0 refilled: the refill assignment is guarded by !count
                        refill = [(p, e) for p, e in fn.events() if e.get("k") == "bin" and e.get("op") == "=" and isinstance(strip_casts(e.get("l")), dict)
                                  and strip_casts(e.get("l")).get("vid") == cnt.get("vid") and is_call(strip_casts(e.get("r")), "dispenso::detail::SmallBufferAllocator::grabFromCentralStore")]
                        ok = False
                        for p, e in refill:
                            for at, pol, b in fn.guard_atoms(p):
                                a = strip_casts(at)
                                if isinstance(a, dict) and a.get("k") == "var" and a.get("vid") == cnt.get("vid") and not pol:
                                    ok = True
                        R.ob("C41.tl-bounds", fn, ev, ok, "tlBuffers[--count] is preceded by a refill whenever count == 0" if ok else "tlBuffers[--count] can underflow: no refill on the count == 0 path", sitekey="alloc", why="the cache index must stay within [0, kMaxNumTLBuffers)")
    for fn in F.functions(qname="dispenso::detail::SmallBufferAllocator::dealloc"):
        for pos, ev in fn.events():
            if ev.get("k") == "bin" and ev.get("op") == "=":
                l = strip_casts(ev.get("l"))
                if isinstance(l, dict) and l.get("k") == "index":
                    i = strip_casts(l.get("idx"))
                    if isinstance(i, dict) and i.get("k") == "un" and i.get("op") == "++" and i.get("postfix"):
                        cnt = strip_casts(i.get("e"))
                        nb += 1
                        ok = False
                        # after the store: on every path to exit, either count != kMax or a recycle + count -= ...
                        for b, t in fn.branch_blocks():
                            c = comparison_of(t["cond"], True, lambda x: isinstance(x, dict) and x.get("k") == "var" and x.get("vid") == cnt.get("vid"))
                            if c and c[0] in ("==", ">=") and const_val(c[1]) is not None and fn.dominates(pos, Pos(b, len(fn.blocks[b]["elems"]))):
                                bound = const_val(c[1])
                                arr = strip_casts(l.get("base"))
                                # the true side shrinks the count
                                sub = [(p, e) for p, e in fn.events() if e.get("k") == "bin" and e.get("op") == "-=" and strip_casts(e.get("l")).get("vid") == cnt.get("vid")]
                                ok = bool(sub) and all(any(bb == b and pol for _, pol, bb in fn.guard_atoms(p)) for p, _ in sub)
                                det_bound = bound
                        R.ob("C41.tl-bounds", fn, ev, ok, "tlBuffers[count++] is followed by a recycle when count reaches the array bound" if ok else "thread-local cache can overflow tlBuffers", sitekey="dealloc", why="the cache index must stay within [0, kMaxNumTLBuffers)")
    R.need("C41.tl-bounds", nb, 2, "thread-local cache index sites")

    nc = 0
    for fn in F.functions(qname="dispenso::detail::SmallBufferAllocator::PerThreadQueuingData::(dtor)"):
        nc += 1
        calls = [(p, e) for p, e in fn.events() if e.get("k") == "call" and e.get("name") == "enqueue_bulk"]
        def mentions(p, e, field):   # through single-definition locals (`const size_t n = count_;`)
            return any(nn.get("k") == "member" and nn.get("fname") == field
                       for a in (e.get("args") or []) for nn in subexprs(fn.expand_expr(a, use_block=p.b)))
        ok = bool(calls) and any(mentions(p, e, "buffers_") and mentions(p, e, "count_") for p, e in calls)
        R.ob("C41.cleanup", fn, fn.loc, ok, "thread exit returns buffers_[0..count_) to the central store" if ok else "cached blocks are lost at thread exit", sitekey="thread-exit", why="blocks cached by an exiting thread must stay available")
    R.need("C41.cleanup", nc, 1, "PerThreadQueuingData destructor")

    # ---- refill count ------------------------------------------------------------------------------------
    # alloc() hands out tlBuffers[--tlCount] for tlCount = grabFromCentralStore(tlBuffers): every slot
    # below the returned count must have been written by this call, or a stale pointer to a block that
    # is still live is handed out a second time.
    from lib.rules import natural_loops, single_def_value
    ng = 0
    for fn in F.functions(qname="dispenso::detail::SmallBufferAllocator::grabFromCentralStore"):
        bufp = fn.params[0].get("vid") if fn.params else None
        def is_buffers(x):
            x = strip_casts(x)
            return isinstance(x, dict) and x.get("k") == "var" and x.get("vid") == bufp
        # loops that fill buffers[i] for i < K
        fills = []
        for h, body, tails in natural_loops(fn):
            writes = [(p, e) for p, e in fn.events() if p.b in body and e.get("k") == "bin" and e.get("op") == "=" and isinstance(strip_casts(e.get("l")), dict)
                      and strip_casts(e.get("l")).get("k") == "index" and is_buffers(strip_casts(e.get("l")).get("base"))]
            if not writes:
                continue
            c = comparison_of((fn.term(h) or {}).get("cond"), True, lambda x: isinstance(strip_casts(x), dict) and strip_casts(x).get("k") == "var")
            if c and c[0] == "<" and const_val(c[1]) is not None:
                fills.append((h, const_val(c[1])))
        for pos, ev in fn.events():
            if ev.get("k") != "return":
                continue
            ng += 1
            v = strip_casts(ev.get("e"))
            src = v
            if isinstance(v, dict) and v.get("k") == "var":
                d = single_def_value(fn, v)
                src = strip_casts(d) if d is not None else v
            ok, det = False, "returns %s" % expr_str(v)
            if isinstance(src, dict) and src.get("k") == "call" and src.get("name") in ("try_dequeue_bulk", "wait_dequeue_bulk") and src.get("args") and is_buffers(src["args"][0]):
                ok, det = True, "returns the number of slots written by %s(buffers, ...)" % src.get("name")
            elif const_val(v) is not None:
                k = const_val(v)
                dom = [K for h, K in fills if fn.dominates(Pos(h, 0), pos)]
                if any(K >= k for K in dom):
                    ok, det = True, "returns %s after a loop that fills buffers[0..%s)" % (k, max(dom))
                else:
                    det = "returns the constant %s on a path where at most %s slot(s) of buffers were provably filled: the slots above hold stale pointers to blocks that are still live" % (k, "the dequeued number of" if not dom else max(dom))
            R.ob("C41.refill-count", fn, ev, ok, det, sitekey="return:%s" % ("dequeue" if (isinstance(src, dict) and src.get("k") == "call") else expr_str(v)),
                 why="a block is never handed out again before it is deallocated: the refill count must not exceed the number of fresh pointers put into the cache")
    R.need("C41.refill-count", ng, 2, "returns of grabFromCentralStore")
