"""C07 — submissions to an idle pool start without the sleep backstop (wake-coverage clause).

Precondition of the property: all workers parked, nothing pending, one producer. Decided:
  C07.must-wake    on every submission path (scheduleImpl, scheduleImplPlaced incl. conditionallyWake,
                   scheduleBulkEnqueue, scheduleBulkToRings) each hand-over to a queue/ring is followed,
                   on every path that is feasible under the precondition, by a wake call
                   (claimAndWakeOne / cascadeWakeSeed / wakeRange), or the path is the proactive one
                   where the claim precedes the push. Branch conditions over 'a wake state exists',
                   'signalling wake enabled', 'totalSleeping() > 0', 'pending > awake' and
                   'toWake <= branchFactor' are folded with the precondition; a condition the evaluator
                   does not recognise makes the obligation inconclusive (exit 2), never a violation.
  C07.wake-reaches a ring-targeted wake on a group futex cannot choose its waiter: the count given to
                   bumpAndWakeN must be the population count of the group's *full* sleep mask (the value
                   loaded from sleepMask, not a narrowed copy), or the wake must be bumpAndWakeAll.
  C07.idle-count   wherever worker threads are started (constructor, resizeLocked) numNotWorking_ is
                   seeded with the bound of the thread-start loop, before the threads start.
  C07.claim-sentinel / C07.claim-delivery  the claim's result is tested as 'negative = nobody'; a claim
                   of one sleeper must be delivered to that sleeper (known finding: it is not).
  C07.partition    threads-per-steal-ring (ThreadPool::kStealRingSharing) equals the default
                   threads-per-wake-group of PoolWakeState: a task placed in a steal ring is found only by
                   that ring's threads, and the accompanying wake goes to one wake group.
"""
import re
from lib.facts import Pos, const_val, expr_str, is_call, normalize_cond, strip_casts, subexprs
from lib.rules import atomic_ops, comparison_of, field_name, lvalue_path, local_defs, single_def_value

LEVEL = "other"
EXPLANATION = __doc__
NOT_DECIDED = ["latency itself", "the arithmetic that makes the number of wakes issued (toWake) at least 1 when everything is parked", "the worker-side enter-sleep race (documented as backstop-covered; outside the precondition)", "multiple concurrent producers"]
WAKES = re.compile(r"^dispenso::detail::PoolWakeState::(claimAndWakeOne|cascadeWakeSeed|wakeRange|cascadeWake)$|^dispenso::ThreadPool::conditionallyWake$")
HANDOFF = re.compile(r"^dispenso::ThreadPool::(enqueueToCentralQueue|scheduleBulkToRingsFastPath|scheduleBulkToRingsBatched)$|::enqueue_bulk$")
WHY = "with every worker parked, the only thing that starts a submitted task promptly is a wake that reaches a thread able to find it"


FAMILY = [(1, 1), (2, 1), (8, 1), (8, 2), (8, 8), (8, 16), (9, 1), (9, 9), (64, 1), (64, 64)]   # (numThreads, submitted)


def evalx(fn, e, N, S, depth=10):
    """Concrete value of an integer/boolean expression under the precondition instance (N parked workers,
    S tasks just submitted, nothing else pending), or None if it contains something not modelled."""
    e = strip_casts(e)
    if depth <= 0 or not isinstance(e, dict):
        return None
    v = const_val(e)
    if v is not None:
        return v
    k = e.get("k")
    if k == "var":
        if e.get("name") in ("ws", "wsCascade"):
            return 1
        if e.get("name") == "count" and e.get("vk") == "param":
            return S
        if e.get("vk") == "local":
            d = single_def_value(fn, e)
            if d is not None:
                return evalx(fn, d, N, S, depth - 1)
        return None
    if k == "call":
        nm = e.get("name")
        if "atomic" in e:
            f = (field_name(lvalue_path(None, fn, e.get("obj"), 0)) or "")
            if f.endswith("enableEpochWaiter_"):
                return 1
            if f.endswith("numThreads_") or f.endswith("numNotWorking_"):
                return N
            if f.endswith("workRemaining_"):
                return S
            return None
        if nm == "totalSleeping":
            return N
        if e.get("callee") in ("std::min", "std::max"):
            vs = [evalx(fn, a, N, S, depth - 1) for a in e.get("args", [])]
            if any(x is None for x in vs):
                return None
            return min(vs) if e["callee"] == "std::min" else max(vs)
        if nm == "claimAndWakeOne":
            return 0       # a parked thread exists: the claim succeeds (index >= 0)
        return None
    if k == "un":
        x = evalx(fn, e.get("e"), N, S, depth - 1)
        if x is None:
            return None
        return {"!": int(not x), "-": -x}.get(e.get("op"))
    if k == "bin":
        op = e.get("op")
        l = evalx(fn, e.get("l"), N, S, depth - 1)
        if op == "&&" and l is not None and not l:
            return 0
        if op == "||" and l:
            return 1
        r = evalx(fn, e.get("r"), N, S, depth - 1)
        if l is None or r is None:
            return None
        try:
            return {"+": l + r, "-": l - r, "*": l * r, ">": int(l > r), "<": int(l < r), ">=": int(l >= r), "<=": int(l <= r), "==": int(l == r), "!=": int(l != r),
                    "&&": int(bool(l) and bool(r)), "||": int(bool(l) or bool(r))}.get(op)
        except Exception:
            return None
    return None


def fold(fn, cond, single):
    """truth value of a branch condition for every member of the precondition family (True/False), 'both'
    if it differs between members, or None if it cannot be evaluated."""
    fam = [(n, 1) for n, s in FAMILY] if single else FAMILY
    vals = set()
    for N, S in fam:
        v = evalx(fn, cond, N, S)
        if v is None:
            return None
        vals.add(bool(v))
    if len(vals) == 2:
        return "both"
    return vals.pop()


def run(R):
    F = R.F
    n = 0
    for q in ("scheduleImpl", "scheduleImplPlaced", "scheduleBulkEnqueue", "scheduleBulkToRings", "conditionallyWake"):
        for fn in F.functions(qname="dispenso::ThreadPool::" + q):
            starts = [(p, e) for p, e in fn.events() if e.get("k") == "call" and e.get("callee") and HANDOFF.search(e["callee"])]
            if q == "conditionallyWake":
                starts = [(Pos(fn.entry, -1), {"loc": fn.loc, "name": "entry"})]
            removed = set()
            unknown_blocks = set()
            for b, t in fn.branch_blocks():
                v = fold(fn, t["cond"], single=q in ("scheduleImpl", "scheduleImplPlaced", "conditionallyWake"))
                if v is True:
                    removed.add((b, 1))
                elif v is False:
                    removed.add((b, 0))
                elif v is None:
                    unknown_blocks.add(b)
            # a loop that issues the wakes (for i < toWake: claimAndWakeOne) runs at least once under the
            # precondition (toWake = min(count, sleeping) >= 1: assumed arithmetic, see NOT_DECIDED):
            # its exit-without-entering edge is not feasible
            from lib.rules import natural_loops
            for h, body, tails in natural_loops(fn):
                if any(pp.b in body and ee.get("k") == "call" and ee.get("callee") and WAKES.search(ee["callee"]) for pp, ee in fn.events()):
                    removed.add((h, 1))
            for p, e in starts:
                n += 1
                def is_wake(pp, ee):
                    return ee.get("k") == "call" and ee.get("callee") and WAKES.search(ee["callee"])
                # proactive path: a claim dominates the push
                if any(is_wake(pp, ee) and fn.dominates(pp, p) for pp, ee in fn.events()):
                    R.ob("C07.must-wake", fn, e, True, "%s: the claim/wake precedes this hand-over" % e.get("name"), sitekey="%s:%s" % (q, e.get("name")), why=WHY)
                    continue
                path = fn.path_to_exit_avoiding(p, is_wake, removed_edges=removed)
                if path is None:
                    R.ob("C07.must-wake", fn, e, True, "%s is followed by a wake on every path feasible with all workers parked" % e.get("name"), sitekey="%s:%s" % (q, e.get("name")), why=WHY)
                else:
                    unk = [b for b in path if b in unknown_blocks]
                    # loops over submitted tasks / groups are not decisions
                    unk = [b for b in unk if (fn.term(b) or {}).get("kind") not in ("ForStmt", "WhileStmt", "CXXForRangeStmt")]
                    if unk:
                        R.inconclusive("C07.must-wake", "%s in %s: wake-avoiding path passes a condition that cannot be folded under the precondition: %s" % (e.get("name"), q, expr_str((fn.term(unk[0]) or {}).get("cond"))))
                    else:
                        R.ob("C07.must-wake", fn, e, False, "%s can be followed by a return without any wake although every worker is parked" % e.get("name"), sitekey="%s:%s" % (q, e.get("name")), why=WHY, path=fn.describe_path(path))
    R.need("C07.must-wake", n, 5, "hand-over sites on submission paths")

    n = 0
    for q in ("cascadeWakeSeed", "wakeRange", "cascadeWake"):
        for fn in F.functions(qname="dispenso::detail::PoolWakeState::" + q):
            for p, e in fn.events():
                if is_call(e, "dispenso::detail::EpochWaiter::bumpAndWakeN"):
                    n += 1
                    cnt = strip_casts(e["args"][0])
                    src = single_def_value(fn, cnt) if isinstance(cnt, dict) and cnt.get("k") == "var" else cnt
                    src = strip_casts(src) if src is not None else None
                    ok = False
                    det = expr_str(src)
                    if isinstance(src, dict) and src.get("k") == "call" and src.get("name") == "countSetBits":
                        m = strip_casts(src["args"][0])
                        if isinstance(m, dict) and m.get("k") == "var":
                            defs = local_defs(fn, m["vid"])
                            full = len(defs) == 1 and defs[0][2] == "decl" and isinstance(strip_casts(defs[0][1]), dict) and "atomic" in strip_casts(defs[0][1]) and (field_name(lvalue_path(F, fn, strip_casts(defs[0][1]).get("obj"))) or "").endswith("sleepMask")
                            ok = full
                            det = "countSetBits(%s), %s" % (m.get("name"), "the mask as loaded from sleepMask" if full else "a mask that is narrowed after the load (%d definitions)" % len(defs))
                    R.ob("C07.wake-reaches", fn, e, ok, "bumpAndWakeN count = " + det, sitekey=q + ":count", why="the kernel picks which waiters of a shared futex wake up: waking fewer than all sleepers of the group may miss the targeted thread")
    R.need("C07.wake-reaches", n, 3, "bumpAndWakeN sites")

    n = 0
    share = None
    for fn in F.functions(qname="dispenso::ThreadPool::(ctor)"):
        for p, e in fn.events():
            if e.get("k") == "init" and e.get("fname") == "stealRingSharing_":
                share = const_val(e.get("init"))
    group = None
    for fn in F.functions(qname="dispenso::detail::makeAligned"):
        for p, nd in fn.all_nodes():
            if nd.get("k") == "construct" and "PoolWakeState" in nd.get("type", "") and len(nd.get("args", [])) >= 2:
                group = const_val(nd["args"][1])
    n += 1
    R.ob("C07.partition", None, "dispenso/thread_pool.h", share is not None and share == group, "threads per steal ring = %s, threads per wake group = %s" % (share, group), sitekey="sharing-vs-group", why="a placed task in steal ring g is found only by the threads of ring g; the wake must land in the same set of threads")
    R.need("C07.partition", 1 if share is not None and group is not None else 0, 1, "steal-ring sharing and wake-group size constants")

    # ---- the sentinel of claimAndWakeOne ----------------------------------------------------------------
    # claimAndWakeOne() returns the index (>= 0, worker 0 included) of the sleeper it claimed and a
    # negative value when none was left. Every test of that result must separate exactly those sets.
    n = 0
    CLAIM = "dispenso::detail::PoolWakeState::claimAndWakeOne"
    neg_returns, var_returns = set(), 0
    for cf in F.functions(qname=CLAIM):
        for p, e in cf.events():
            if e.get("k") == "return":
                v = const_val(e.get("e"))
                if v is not None:
                    neg_returns.add(v)
                else:
                    var_returns += 1
    sentinel_ok = bool(neg_returns) and all(v < 0 for v in neg_returns) and var_returns >= 1
    for fn in F.fns:
        calls = [(p, e) for p, e in fn.events() if is_call(e, CLAIM)]
        if not calls:
            continue
        sids = {e["sid"] for _, e in calls}
        vids = set()
        for p, e in fn.events():
            if e.get("k") == "decl" and isinstance(strip_casts(e.get("init")), dict) and strip_casts(e["init"]).get("sid") in sids:
                vids.add(e["vid"])
        is_res = lambda x: isinstance(strip_casts(x), dict) and (strip_casts(x).get("sid") in sids or (strip_casts(x).get("k") == "var" and strip_casts(x).get("vid") in vids))
        for p, nd in fn.all_nodes():
            if nd.get("k") == "bin" and nd.get("op") in ("<", "<=", ">", ">=", "==", "!="):
                c = comparison_of(nd, True, is_res)
                if not c:
                    continue
                op, other, side = c
                k = const_val(other)
                n += 1
                # exact separation of {negative} from {0, 1, 2, ...}
                none_forms = {("<", 0), ("<=", -1), ("==", -1)}
                some_forms = {(">=", 0), (">", -1), ("!=", -1)}
                ok = sentinel_ok and ((op, k) in none_forms or (op, k) in some_forms)
                R.ob("C07.claim-sentinel", fn, nd, ok, "claimAndWakeOne() result tested with '%s %s'%s" % (op, k, "" if ok else ": worker 0 is a valid claim, a negative value means 'no sleeper left'"), sitekey="%s:%s%s" % (fn.qname.split("::")[-1], op, k),
                     why="treating worker 0 as 'nobody left' stops a wake loop after one wake; treating 'nobody' as a worker places a task where no one looks")
    R.need("C07.claim-sentinel", n, 2, "tests of claimAndWakeOne()'s result")

    # ---- a claim must be delivered to the sleeper it claimed ----------------------------------------------
    # tryClaimSleeper(t) clears t's bit in the group's sleep mask: from then on no other waker sees t.
    # The wake that follows goes to the group's *shared* futex, so the kernel chooses the waiter. Unless
    # the wake is wide enough to include t (all sleepers of the group), or an unclaimed thread that is
    # woken hands the wake on, t can stay parked with its bit already cleared: invisible to every later
    # claim until the backstop fires, while the thread that did wake clears its own bit as well.
    n = 0
    handoff = False
    for wf in F.functions(regex=r"^dispenso::ThreadPool::threadLoopImpl$"):
        ex = [p for p, e in wf.events() if is_call(e, "dispenso::detail::PoolWakeState::exitSleep")]
        for p, e in wf.events():
            if e.get("k") == "call" and e.get("name") in ("bumpAndWake", "bumpAndWakeN", "bumpAndWakeAll", "claimAndWakeOne", "handOnWake") and any(wf.can_reach(x, p) for x in ex):
                handoff = True
    for fn in F.fns:
        if not fn.qname.startswith("dispenso::"):
            continue
        claims = [(p, e) for p, e in fn.events() if is_call(e, "dispenso::detail::PoolWakeState::tryClaimSleeper")]
        for p, e in claims:
            n += 1
            wakes = [(wp, we) for wp, we in fn.events() if we.get("k") == "call" and (we.get("cls") or "").endswith("EpochWaiter") and we.get("name", "").startswith("bumpAndWake")
                     and any(pol and isinstance(strip_casts(at), dict) and strip_casts(at).get("sid") == e["sid"] or (pol and e["sid"] in {s.get("sid") for s in subexprs(at) if isinstance(s, dict)}) for at, pol, b in fn.guard_atoms(wp))]
            wide = [we for wp, we in wakes if we.get("name") in ("bumpAndWakeAll", "bumpAndWakeN")]
            narrow = [we for wp, we in wakes if we.get("name") == "bumpAndWake"]
            ok = bool(wakes) and (not narrow or handoff)
            det = "claimed sleeper is covered by a group-wide wake" if ok and wide and not narrow else (
                  "an unclaimed worker that is woken hands the wake on" if ok else
                  ("tryClaimSleeper(t) clears t's mask bit, then bumpAndWake() wakes ONE waiter of the group's shared futex chosen by the kernel; a woken worker only clears its own bit (exitSleep) and never hands the wake on: t can stay parked and invisible to later claims" if wakes else "claim without a wake"))
            R.ob("C07.claim-delivery", fn, e, ok, det, sitekey="claim->%s" % (narrow[0].get("name") if narrow else (wide[0].get("name") if wide else "none")),
                 why="a parked worker whose mask bit is cleared can only be woken by the wake that cleared it; if the kernel gives that wake to another waiter, n submissions into n parked workers start only n-1 tasks before the backstop")
    R.need("C07.claim-delivery", n, 1, "tryClaimSleeper call sites")

    # ---- the idle count equals the number of workers that exist ---------------------------------------------
    # bulk submissions wake `count - (numNotWorking_ - totalSleeping)` sleepers: the "spinning" estimate
    # is only right if numNotWorking_ was seeded with the number of threads actually started. Seeding it
    # with the *requested* count (before DISPENSO_MAX_THREADS_PER_POOL caps it) leaves a permanent
    # surplus that is mistaken for spinners: toWake becomes 0 and nothing is woken.
    from lib.rules import natural_loops, same_value
    n = 0
    NNW = "dispenso::ThreadPool::numNotWorking_"
    for q in ("dispenso::ThreadPool::(ctor)", "dispenso::ThreadPool::resizeLocked"):
        for fn in F.functions(qname=q):
            starts = [(p, e) for p, e in fn.events() if is_call(e, "dispenso::ThreadPool::PerThreadData::setThread")]
            stores = [a for a in atomic_ops(F, fn) if a.field == NNW and a.op == "store"]
            if not starts:
                continue
            n += 1
            bound = None
            for h, body, tails in natural_loops(fn):
                if any(p.b in body for p, _ in starts):
                    c = comparison_of((fn.term(h) or {}).get("cond"), True, lambda x: isinstance(strip_casts(x), dict) and strip_casts(x).get("k") == "var")
                    if c and c[0] in ("<", "!="):
                        bound = c[1]
            ok = bound is not None and len(stores) >= 1 and all(same_value(strip_casts(a.node["args"][0]), bound, fn) for a in stores) and all(fn.dominates(a.pos, p) for a in stores for p, _ in starts)
            R.ob("C07.idle-count", fn, stores[0].node if stores else fn.loc, ok,
                 "numNotWorking_ is seeded with the bound of the thread-start loop (%s), before the threads start" % expr_str(bound) if ok else
                 "numNotWorking_ is seeded with %s but %s threads are started: the surplus is counted as spinning workers and bulk submissions into the parked pool wake nobody" % (expr_str(stores[0].node["args"][0]) if stores else "nothing", expr_str(bound)),
                 sitekey="seed@" + q.split("::")[-1], why="the number of sleepers to wake is computed from numNotWorking_; it must describe the threads that exist")
    R.need("C07.idle-count", n, 2, "functions that start worker threads")
