"""C36 — ChaseLevDeque delivers each element exactly once (fence / CAS / ownership clauses).

Decided on every CFG path of try_push, try_pop(_into), try_steal(_into):
  C36.fences       a seq_cst fence lies on every path between the bottom_ store and the top_ load in the
                   owner's pop, and between the top_ load and the bottom_ load in a steal.
  C36.cas          the last-element race in pop and every steal are decided by a seq_cst compare-exchange
                   on top_ (t -> t+1) whose result is the function's result; try_push publishes with a
                   release store of bottom_ after writing the slot and steals load bottom_ with acquire.
  C36.owner-only   bottom_ is written only by the owner operations (try_push, try_pop*); top_ changes
                   only through compare-exchange; the empty path of pop restores bottom_.
  C36.read-before-claim a steal reads the slot before its compare-exchange (after a successful CAS the
                   owner may overwrite the slot).
"""
import re
from lib.facts import Pos, const_val, expr_str, is_call, order_at_least, strip_casts, subexprs
from lib.rules import atomic_ops, comparison_of

LEVEL = "other"
EXPLANATION = __doc__
NOT_DECIDED = ["exactly-once under all interleavings (the Chase-Lev proof itself)", "capacity arithmetic"]
CLS = "dispenso::ChaseLevDeque"
BOT, TOP = CLS + "::bottom_", CLS + "::top_"
WHY = "owner and thieves race for the last element; only the fences plus a seq_cst CAS on top_ make exactly one of them win"


def run(R):
    F = R.F
    n = 0
    for fn in F.functions(cls=CLS):
        nm = fn.qname.split("::")[-1]
        ops = atomic_ops(F, fn)
        if nm in ("try_pop", "try_pop_into", "try_steal", "try_steal_into"):
            fences = {a.pos for a in ops if a.op == "fence" and a.orders and a.orders[0] == "seq_cst"}
            if nm.startswith("try_pop"):
                firsts = [a for a in ops if a.field == BOT and a.op == "store"]
                seconds = [a for a in ops if a.field == TOP and a.op == "load"]
            else:
                firsts = [a for a in ops if a.field == TOP and a.op == "load"]
                seconds = [a for a in ops if a.field == BOT and a.op == "load"]
            n += 1
            ok = bool(firsts) and bool(seconds) and bool(fences)
            if ok:
                cands = [a for a in firsts if any(fn.dominates(a.pos, s.pos) for s in seconds)]
                ok = bool(cands)
                for a in cands[:1]:
                    for s in seconds:
                        if fn.dominates(a.pos, s.pos) and fn.path_to_exit_avoiding(a.pos, lambda p, e: p in fences, include_noreturn=True, targets=lambda p, e, s=s: p == s.pos) is not None:
                            ok = False
            R.ob("C36.fences", fn, fn.loc, ok, "full fence between the two cursor accesses on every path" if ok else "a path orders the two cursor accesses without a seq_cst fence", sitekey=nm, why=WHY)
            cas = [a for a in ops if a.field == TOP and a.op.startswith("compare_exchange")]
            n += 1
            okc = bool(cas) and all(a.success_order == "seq_cst" for a in cas)
            if okc:
                # the CAS result decides the return value; the new value is expected + 1
                for a in cas:
                    nv = strip_casts(a.node["args"][1])
                    if not (isinstance(nv, dict) and nv.get("k") == "bin" and nv.get("op") == "+" and const_val(nv.get("r")) == 1):
                        okc = False
                    # ... directly or through a named temporary (`const bool won = top_.compare_exchange...`)
                    used = any(e.get("k") == "return" and any(x.get("sid") == a.node["sid"] for x in subexprs(fn.expand_expr(e))) for _, e in fn.events()) or \
                        any(any(x.get("sid") == a.node["sid"] for x in subexprs(fn.expand_expr(t["cond"]))) for b, t in fn.branch_blocks())
                    if not used:
                        okc = False
            R.ob("C36.cas", fn, cas[0].node if cas else fn.loc, okc, "seq_cst CAS top_: t -> t+1 decides the outcome" if okc else "the race on top_ is not decided by a seq_cst compare-exchange whose result is used", sitekey=nm + ":cas", why=WHY)
        if nm in ("try_steal", "try_steal_into"):
            n += 1
            cas = [a for a in ops if a.field == TOP and a.op.startswith("compare_exchange")]
            reads = [(p, nd) for p, nd in fn.all_nodes() if nd.get("k") == "call" and nd.get("name") == "slotPtr"]
            ok = bool(cas) and bool(reads) and all(not fn.can_reach(c.pos, p) and (fn.dominates(p, c.pos) or p.b == c.pos.b and p.i <= c.pos.i) for c in cas for p, _ in reads)
            R.ob("C36.read-before-claim", fn, fn.loc, ok, "slot read before the claiming CAS" if ok else "slot read after the CAS: the owner may already have overwritten it", sitekey=nm, why="once top_ has advanced the owner may reuse the slot")
            bl = [a for a in ops if a.field == BOT and a.op == "load"]
            n += 1
            R.ob("C36.cas", fn, bl[0].node if bl else fn.loc, bool(bl) and all(order_at_least(a.success_order, "acquire") for a in bl), "bottom_ loaded with acquire", sitekey=nm + ":bottom-acquire", why="the slot written by the owner is published by the release store of bottom_")
        if nm == "try_push":
            n += 1
            st = [a for a in ops if a.field == BOT and a.op == "store"]
            ok = len(st) == 1 and order_at_least(st[0].success_order, "release")
            if ok:
                # the slot write precedes the store
                wr = [(p, e) for p, e in fn.events() if e.get("k") in ("bin", "call") and any(x.get("k") == "call" and x.get("name") == "slotPtr" for x in subexprs(e))]
                ok = bool(wr) and all(fn.dominates(p, st[0].pos) for p, _ in wr)
            R.ob("C36.cas", fn, st[0].node if st else fn.loc, ok, "slot written, then bottom_ release-stored" if ok else "push does not publish the slot with a release store of bottom_ after writing it", sitekey="try_push:publish", why=WHY)
        # ownership of the cursors
        for a in ops:
            if a.field == BOT and a.is_write:
                n += 1
                R.ob("C36.owner-only", fn, a.node, nm in ("try_push", "try_pop", "try_pop_into"), "bottom_ written in %s" % nm, sitekey="bottom@" + nm, why="bottom_ belongs to the single owner thread")
            if a.field == TOP and a.is_write:
                n += 1
                R.ob("C36.owner-only", fn, a.node, a.op.startswith("compare_exchange"), "top_ changed by %s in %s" % (a.op, nm), sitekey="top@" + nm, why="top_ may only advance by a compare-exchange")
        if nm in ("try_pop", "try_pop_into"):
            n += 1
            # the empty path (t > b) restores bottom_ to b + 1 before returning false
            ok = False
            for p, e in fn.events():
                if e.get("k") == "return" and const_val(e.get("e")) == 0:
                    restores = [a for a in ops if a.field == BOT and a.op == "store" and fn.dominates(a.pos, p) and any(x.get("k") == "bin" and x.get("op") == "+" and const_val(x.get("r")) == 1 for x in subexprs(a.node["args"][0]))]
                    ok = bool(restores)
            R.ob("C36.owner-only", fn, fn.loc, ok, "empty pop restores bottom_" if ok else "empty pop leaves bottom_ decremented (the deque shrinks by a phantom element)", sitekey=nm + ":restore", why="a failed pop must leave the deque unchanged")
    R.need("C36", n, 20, "ChaseLevDeque protocol sites")
