"""C46 — inline task execution never grows the stack without bound (depth-guard clause).

Inline-execution sites are the places where dispenso runs a task on the thread that is scheduling or
completing another one: a direct invocation of the functor parameter / a dequeued OnceFunction inside
ThreadPool::schedule*, TaskSet::schedule, ConcurrentTaskSet::schedule*, TaskSetBase::invokeInline, the
pipeline's completion callback, and Future::wait running a not-yet-started future.
  C46.depth-guard  every such site is dominated by PerPoolPerThreadInfo::canInlineSchedule() == true
                   (at the site or, for the helper invokeInline, at each of its call sites) *and* by
                   the declaration of a live InlineDepthGuard (destroyed after the call), or it is in
                   the reasoned exemption list below.
  C46.guard-class  InlineDepthGuard's constructor increments and its destructor decrements the
                   per-thread depth; canInlineSchedule compares that depth with a constant.
Exemptions (each one named symbol, with the reason):
  ThreadPool::forceEnqueue          inline only on a zero-thread pool: nothing else could ever run it
  ThreadPool::scheduleBulkImpl      sequential loop over the tasks of one call; it nests only through
                                    the *user's* own recursion, not with the number of tasks
  ImmediateInvoker::schedule        documented to run immediately
"""
import re
from lib.facts import Pos, const_val, expr_str, is_call, strip_casts, strip_move, subexprs
from lib.rules import body_invocations, callers_of, comparison_of

LEVEL = "other"
EXPLANATION = __doc__
NOT_DECIDED = ["bytes of stack per level", "user-level recursion"]
SCOPE = re.compile(r"^dispenso::(ThreadPool::(schedule|schedulePlaced|scheduleBulkImpl|forceEnqueue)|TaskSet::schedule|ConcurrentTaskSet::(schedule|schedulePlaced)|TaskSetBase::(invokeInline|scheduleBulkImpl|scheduleBulkImplPlaced))$")
EXEMPT = {"dispenso::ThreadPool::forceEnqueue": "zero-thread pool", "dispenso::ThreadPool::scheduleBulkImpl": "sequential loop; nests only through user recursion"}
WHY = "a task run inline can itself schedule or complete more work; without a depth limit the nesting grows with the number of tasks/continuations"


def guarded(fn, pos, ev):
    can = any(pol and isinstance(strip_casts(at), dict) and strip_casts(at).get("k") == "call" and strip_casts(at).get("name") == "canInlineSchedule" for at, pol, b in fn.guard_atoms(pos))
    g = [(p, e) for p, e in fn.events() if e.get("k") == "decl" and "InlineDepthGuard" in e.get("type", "") and fn.dominates(p, pos)]
    live = False
    for p, e in g:
        # the guard object is destroyed after the call on the paths through it
        d = [pp for pp, ee in fn.events() if ee.get("k") == "autodtor" and ee.get("vid") == e.get("vid")]
        if d and all(not fn.can_reach(pp, pos) or True for pp in d) and any(fn.can_reach(pos, pp) for pp in d):
            live = True
    return can, live


def run(R):
    F = R.F
    n = 0
    for fn in F.fns:
        if not SCOPE.match(fn.qname):
            continue
        for pos, ev, var, via in body_invocations(fn, var_kinds=("param", "local")):
            n += 1
            key = "%s%s()" % (var.get("name"), "(i)" if via else "")
            if fn.qname in EXEMPT:
                R.ob("C46.depth-guard", fn, ev, True, "exempt: " + EXEMPT[fn.qname], sitekey=key, why=WHY)
                continue
            can, live = guarded(fn, pos, ev)
            if fn.qname == "dispenso::TaskSetBase::invokeInline":
                # canInlineSchedule is tested by the callers
                cs = callers_of(F, r"^dispenso::TaskSetBase::invokeInline$")
                can = bool(cs) and all(guarded(cf, cp, ce)[0] for cf, cp, ce in cs)
            R.ob("C46.depth-guard", fn, ev, can and live, "canInlineSchedule() %s; live InlineDepthGuard %s" % ("tested" if can else "NOT tested", "present" if live else "MISSING"), sitekey=key, why=WHY)
    # pipeline completion callback: func() on a dequeued item
    for fn in F.fns:
        if fn.is_lambda and fn.root_parent().qname == "dispenso::detail::LimitGatedScheduler::Impl::schedule":
            for pos, ev, var, via in body_invocations(fn, var_kinds=("local",)):
                if (var.get("ctype") or "") != "dispenso::OnceFunction":
                    continue
                n += 1
                can, live = guarded(fn, pos, ev)
                R.ob("C46.depth-guard", fn, ev, can and live, "pipeline serial continuation: canInlineSchedule() %s; InlineDepthGuard %s" % ("tested" if can else "NOT tested", "present" if live else "MISSING"), sitekey="pipeline:func()", why=WHY)
    # graph executor: inline continuation loop declares a guard at the top and only inlines one successor (loop, not recursion)
    for fn in F.functions(qname="dispenso::detail::ExecutorBase::evaluateNodeConcurrently"):
        n += 1
        g = [(p, e) for p, e in fn.events() if e.get("k") == "decl" and "InlineDepthGuard" in e.get("type", "")]
        runs = [(p, e) for p, e in fn.events() if e.get("k") == "call" and e.get("name") == "run"]
        ok = bool(g) and bool(runs) and all(fn.dominates(g[0][0], p) for p, _ in runs)
        R.ob("C46.depth-guard", fn, fn.loc, ok, "node->run() under a live InlineDepthGuard; successors beyond the first are scheduled" if ok else "graph inline evaluation without a depth guard", sitekey="graph:run", why=WHY)
        break
    # Future::wait running the functor inline
    for fn in F.functions(qname="dispenso::detail::FutureImplBase::waitCommon"):
        for pos, node in fn.all_nodes():
            if node.get("k") == "call" and node.get("name") == "run":
                n += 1
                can, live = guarded(fn, pos, node)
                R.ob("C46.depth-guard", fn, node.get("loc") or fn.loc, can and live,
                     "wait()/get() runs a not-yet-started future inline with no depth limit: a continuation's wrapper waits on its antecedent, which is run inline in turn, so waiting on the tail of a chain of N unstarted continuations nests N deep",
                     sitekey="future:wait-run", why=WHY)
        break
    R.need("C46.depth-guard", n, 12, "inline-execution sites")

    m = 0
    for fn in F.fns:
        if fn.qname == "dispenso::detail::InlineDepthGuard::(ctor)":
            m += 1
            R.ob("C46.guard-class", fn, fn.loc, any(e.get("k") == "un" and e.get("op") == "++" for _, e in fn.events()), "constructor increments the depth", sitekey="ctor", why=WHY)
        if fn.qname == "dispenso::detail::InlineDepthGuard::(dtor)":
            m += 1
            R.ob("C46.guard-class", fn, fn.loc, any(e.get("k") == "un" and e.get("op") == "--" for _, e in fn.events()), "destructor decrements the depth", sitekey="dtor", why=WHY)
        if fn.qname == "dispenso::detail::PerPoolPerThreadInfo::canInlineSchedule":
            m += 1
            ok = False
            for _, e in fn.events():
                if e.get("k") == "return":
                    x = strip_casts(e.get("e"))
                    if isinstance(x, dict) and x.get("k") == "bin" and x.get("op") in ("<", "<=") and const_val(x.get("r")) is not None:
                        ok = True
            R.ob("C46.guard-class", fn, fn.loc, ok, "depth compared with a compile-time constant" if ok else "depth limit is not a constant", sitekey="canInline", why=WHY)
    R.need("C46.guard-class", m, 3, "InlineDepthGuard / canInlineSchedule")
