"""C29 — pipeline exceptions terminate cleanly without leaks.

Decided on every CFG path:
  C29.skip-dispose  a packaged task (TaskSetBase::packageTask*) whose payload is a OnceFunction -- the
                    form in which the pipeline's limited stages hand queued items to the task set --
                    consumes that payload on every path, including the path that skips the body
                    because the set was cancelled by an exception (run it, or dispose of it through a
                    function that calls cleanupNotRun on every path). A OnceFunction has no
                    destructor for its payload, so a skipped one is a leak.
  C29.entry-dispose the same for every scheduling entry point instantiated with a OnceFunction functor
                    (TaskSet/ConcurrentTaskSet::schedule*): no exit leaves the functor unconsumed.
  C29.discard       LimitGatedScheduler::Impl::wait consumes every dequeued item on every path
                    (cleanupNotRun on the discard paths).
  C29.gen-recheck   the generator and single-stage runner loops test hasException() in every
                    iteration before calling the stage again.
  C29.capture       every stage invocation in the scheduler's item lambdas is inside a catch-all whose
                    handler records the exception in the task set, or the lambda is handed to the
                    ConcurrentTaskSet (whose packaged tasks do the same).
  C29.drain-before-rethrow  generator Pipe::wait(): the downstream drain (which discards queued items
                    when an exception is pending) runs before the task set's rethrowing wait().
"""
import re
from lib import typestate
from lib.facts import Pos, const_val, expr_str, is_call, strip_casts, strip_move, subexprs
from lib.rules import guard_in_same_iteration, field_name, lvalue_path

ANCHOR_SOURCES = ["props/C27.py"]
LEVEL = "other"
EXPLANATION = __doc__
NOT_DECIDED = ["which exception is rethrown (C05)", "memory held by moodycamel queues", "that the pool stays usable (follows from C08/C27 accounting)"]
IMPL = "dispenso::detail::LimitGatedScheduler::Impl"
WHY = "OnceFunction releases its type-erased payload only when invoked or cleanupNotRun() is called"


def run(R):
    F = R.F
    disposers = typestate.disposer_functions(F)
    R.note("disposer functions: %s" % sorted(disposers))
    # ---- packaged tasks with OnceFunction payload ---------------------------------------------------
    n = 0
    for fn in F.fns:
        if not (fn.is_lambda and fn.parent is not None and re.search(r"TaskSetBase::packageTask(NoIncrement)?$", fn.parent.qname)):
            continue
        caps = {}
        for pos, node in fn.all_nodes():
            if node.get("k") == "var" and node.get("vk") == "initcapture" and node.get("ctype") in ("dispenso::OnceFunction", "OnceFunction"):
                caps[node["vid"]] = node["name"]
        if not caps:
            continue
        n += 1
        L = typestate.Linear(F, fn, caps, allow_drop_when_cancelled=False, by_ref_params=caps.keys(), disposers=disposers)
        vios, stats = L.run(owned_params=list(caps.keys()))
        R.paths_enumerated += stats["state_block_pairs"]
        if not vios:
            R.ob("C29.skip-dispose", fn, fn.loc, True, "payload '%s' consumed on all paths (%d states)" % (",".join(caps.values()), stats["state_block_pairs"]), sitekey="payload", why=WHY)
        for v in vios:
            R.ob("C29.skip-dispose", fn, (v["ev"] or {}).get("loc") or fn.loc, False, v["msg"], sitekey="payload", why=WHY, path=fn.describe_path(v["trail"][-8:]))
    R.need("C29.skip-dispose", n, 2, "packaged-task lambdas with a OnceFunction payload (packageTask and packageTaskNoIncrement)")

    # ---- entry points with OnceFunction functor -------------------------------------------------------
    n = 0
    for fn in F.fns:
        if not re.search(r"^dispenso::(TaskSet|ConcurrentTaskSet)::schedule(Placed)?$", fn.qname):
            continue
        ps = {p["vid"]: p["name"] for p in fn.params if p.get("ctype", "").replace("dispenso::", "") in ("OnceFunction &&",)}
        if not ps:
            continue
        n += 1
        L = typestate.Linear(F, fn, ps, allow_drop_when_cancelled=False, by_ref_params=ps.keys(), disposers=disposers)
        vios, stats = L.run(owned_params=list(ps.keys()))
        if not vios:
            R.ob("C29.entry-dispose", fn, fn.loc, True, "functor consumed on all paths (%d states)" % stats["state_block_pairs"], sitekey="functor", why=WHY)
        for v in vios:
            R.ob("C29.entry-dispose", fn, (v["ev"] or {}).get("loc") or fn.loc, False, v["msg"], sitekey="functor", why=WHY, path=fn.describe_path(v["trail"][-8:]))
    R.need("C29.entry-dispose", n, 3, "schedule() instantiations taking a OnceFunction")

    # ---- discard paths ---------------------------------------------------------------------------------------
    n = 0
    for fn in F.functions(qname=IMPL + "::wait"):
        tracked, owned = typestate.once_function_vars(fn)
        n += 1
        L = typestate.Linear(F, fn, tracked, allow_drop_when_cancelled=False)
        vios, stats = L.run(owned_params=owned)
        ncl = sum(1 for _, e in fn.events() if e.get("k") == "call" and e.get("name") == "cleanupNotRun")
        if not vios:
            R.ob("C29.discard", fn, fn.loc, ncl >= 1, "every dequeued item is scheduled or cleaned up (%d cleanupNotRun sites)" % ncl, sitekey="wait", why=WHY)
        for v in vios:
            R.ob("C29.discard", fn, (v["ev"] or {}).get("loc") or fn.loc, False, v["msg"], sitekey="wait", why=WHY, path=fn.describe_path(v["trail"][-8:]))
    R.need("C29.discard", n, 1, "LimitGatedScheduler::Impl::wait")

    # ---- generator loops re-check the exception flag --------------------------------------------------------
    n = 0
    for fn in F.fns:
        if not (fn.is_lambda and fn.parent is not None and fn.parent.qname == "dispenso::detail::Pipe::execute" and not fn.parent.params):
            continue
        for pos, ev in fn.events():
            if ev.get("k") == "call" and ev.get("opcall") == "()" and (field_name(lvalue_path(F, fn, ev.get("obj"))) or "").endswith("::stage_"):
                n += 1
                ok = False
                for at, pol, b in fn.guard_atoms(pos):
                    a = strip_casts(at)
                    if isinstance(a, dict) and a.get("k") == "call" and a.get("name") == "hasException" and not pol and guard_in_same_iteration(fn, ev, b):
                        ok = True
                R.ob("C29.gen-recheck", fn, ev, ok, "stage_() is called only after hasException() was false in the same iteration" if ok else "runner loop calls the stage again without re-checking for a captured exception",
                     sitekey="runner-loop", why="the generator must stop producing once an exception is observed")
    R.need("C29.gen-recheck", n, 2, "stage calls in generator / single-stage runner loops")

    # ---- exception capture around stage invocations ------------------------------------------------------------
    n = 0
    for fn in F.fns:
        if not (fn.is_lambda and fn.parent is not None and fn.parent.qname == IMPL + "::schedule"):
            continue
        for pos, ev in fn.events():
            if ev.get("k") == "call" and ev.get("opcall") == "()" and isinstance(strip_move(ev.get("obj")), dict) and strip_move(ev.get("obj")).get("name") == "fPipe":
                n += 1
                t = ev.get("try")
                ok = False
                det = "stage invocation outside any try block"
                if t:
                    tr = [x for x in fn.raw.get("tries", []) if x["id"] == t]
                    catch_all = bool(tr) and any(h.get("all") for h in tr[0]["handlers"])
                    rec = any(e.get("catch") == t and is_call(e, "dispenso::TaskSetBase::trySetCurrentException") for _, e in fn.events())
                    ok = catch_all and rec
                    det = "inside try with catch(...) -> trySetCurrentException" if ok else "try block lacks a catch-all that records the exception"
                else:
                    # handed to the ConcurrentTaskSet? find the call in the parent that takes this lambda
                    par = fn.parent
                    for p2, e2 in par.events():
                        if e2.get("k") == "call" and any(nn.get("k") == "lambda" and nn.get("fid") == fn.id for nn in subexprs(e2)):
                            if (e2.get("callee") or "") == "dispenso::ConcurrentTaskSet::schedule":
                                ok = True
                                det = "lambda is handed to ConcurrentTaskSet::schedule (packaged tasks capture exceptions)"
                R.ob("C29.capture", fn, ev, ok, det, sitekey="fPipe()", why="a throwing stage must end up in the task set's captured exception, not terminate the worker")
    R.need("C29.capture", n, 2, "stage invocations in LimitGatedScheduler item lambdas")

    # the drain that discards queued items when an exception is pending must run before the
    # (rethrowing) task-set wait of the generator pipe
    from props import C27 as _c27
    n = _c27.rethrow_last(R, "C29.drain-before-rethrow")
    R.need("C29.drain-before-rethrow", n, 1, "generator Pipe::wait")
