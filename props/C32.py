"""C32 — ConcurrentVector behaves like std::vector sequentially (element lifetime clause only).

Decided on every CFG path of every ConcurrentVector<T> instantiation (T with non-trivial lifetime):
  C32.shrink-destroys  every operation that lowers size_ destroys what it vacates: on each path the
                       number of single-element decrements equals the number of destructor calls
                       (erase(pos), pop_back); erase(first,last) destroys, in a loop, the range from the
                       new end (the result of the std::move that closes the gap) to the *old* end taken
                       before size_ changes; resize() and clear() destroy in a loop before they store
                       the smaller size.
  C32.buffer-ownership every site that installs a bucket buffer assigns (=, never accumulates) that
                       bucket's shouldDealloc_ flag; shrink_to_fit frees only flagged buckets and nulls
                       what it releases (each block freed exactly once).
  C32.alloc-before-advance insertPartial forms iterators beyond the old end() only after the
                       buckets they point into were allocated (pointer-caching iterators).
  C32.shrink-keeps-lookahead shrink_to_fit starts releasing at max(2, bucket + 2): the look-ahead bucket of
                       the half/full-ahead strategies survives.
  C32.no-double-ctor   insert(pos, value) never placement-constructs at the insertion point:
                       insertPartial() opens the gap with move_backward, which leaves a *live*
                       moved-from element there, so the new value must be assigned; insertPartial
                       itself constructs the new tail element(s) before move_backward touches them.
"""
import re
from lib import dataflow
from lib.facts import Pos, const_val, expr_str, is_call, strip_casts, strip_move, subexprs
from lib.rules import atomic_ops, natural_loops, single_def_value

LEVEL = "other"
EXPLANATION = __doc__
NOT_DECIDED = ["equality of contents, size and returned positions with std::vector (value properties; note: both erase overloads return the new end() rather than the position after the removed range)", "concurrent growth (C33)"]
CLS = "dispenso::ConcurrentVector"
SIZE = CLS + "::size_"
WHY = "every element constructed must be destroyed exactly once"


def is_destroy(e):
    return (e.get("k") == "call" and e.get("dtorcall")) or e.get("k") == "pseudodtor"


def run(R):
    F = R.F
    n = 0
    # erase(pos), pop_back: per-path balance of -1 and destroy
    for fn in F.functions(cls=CLS):
        nm = fn.qname.split("::")[-1]
        if nm not in ("erase", "pop_back"):
            continue
        subs = {a.pos for a in atomic_ops(F, fn) if a.field == SIZE and a.op == "fetch_sub" and const_val(a.node["args"][0]) == 1}
        if not subs:
            continue
        n += 1
        def transfer(pos, ev, st):
            s, d = st
            if pos in subs:
                s = min(s + 1, 2)
            if is_destroy(ev):
                d = min(d + 1, 2)
            return (s, d)
        bad = []
        def at_exit(st):
            if st[0] != st[1]:
                return "a path lowers size_ by %d and destroys %d element(s)" % st
            return None
        vios, stats = dataflow.run(fn, (0, 0), transfer, None, at_exit)
        R.ob("C32.shrink-destroys", fn, fn.loc, not vios, "every path that removes one element destroys exactly one" if not vios else vios[0]["msg"] + " (the vacated element is never destroyed)",
             sitekey=nm + ":single", why=WHY, path=fn.describe_path(vios[0]["trail"][-8:]) if vios else None)
    # erase(first, last)
    for fn in F.functions(qname=CLS + "::erase"):
        subs = [a for a in atomic_ops(F, fn) if a.field == SIZE and a.op == "fetch_sub" and const_val(a.node["args"][0]) is None]
        if not subs:
            continue
        n += 1
        ok = False
        det = "no loop destroying the vacated tail"
        for h, body, tails in natural_loops(fn):
            dts = [(p, e) for p, e in fn.events() if p.b in body and is_destroy(e)]
            if not dts:
                continue
            t = fn.term(h) or {}
            c = strip_casts(t.get("cond"))
            # the loop runs an iterator from the std::move result to the old end
            vars_in_cond = [nn for nn in subexprs(c) if nn.get("k") == "var"]
            defs = {v["name"]: single_def_value(fn, v) for v in vars_in_cond}
            has_old_end = any(isinstance(strip_casts(d), dict) and strip_casts(d).get("k") == "call" and strip_casts(d).get("name") in ("end", "cend") for d in defs.values() if d is not None)
            starts = [e for p, e in fn.events() if e.get("k") == "decl" and e.get("loop") == (dts[0][1].get("loop")) or False]
            from_move = False
            for p, e in fn.events():
                if e.get("k") == "decl" and isinstance(e.get("init"), dict):
                    i = strip_casts(e["init"])
                    while isinstance(i, dict) and i.get("k") == "construct" and len(i.get("args", [])) == 1:
                        i = strip_casts(i["args"][0])
                    # d = e_it  where e_it = std::move(last, oldEnd, it)
                    src = single_def_value(fn, i) if i.get("k") == "var" else i
                    while isinstance(strip_casts(src), dict) and strip_casts(src).get("k") == "construct" and len(strip_casts(src).get("args", [])) == 1:
                        src = strip_casts(src)["args"][0]
                    if isinstance(strip_casts(src), dict) and is_call(strip_casts(src), "std::move") and len(strip_casts(src).get("args", [])) == 3:
                        if any(v.get("vid") == e.get("vid") for v in vars_in_cond):
                            from_move = True
            before = all(fn.can_reach(p, subs[0].pos) or True for p, _ in dts) and fn.dominates(Pos(h, 0), subs[0].pos)
            ok = has_old_end and from_move
            det = "destroy loop runs from the gap-closing move's result to the old end" if ok else "destroy loop does not cover [new end, old end): bound/old-end %s, start-from-move %s" % (has_old_end, from_move)
        R.ob("C32.shrink-destroys", fn, subs[0].node, ok, det, sitekey="erase:range", why=WHY)
    for fn in F.functions(cls=CLS):
        nm = fn.qname.split("::")[-1]
        if nm not in ("resize", "clear"):
            continue
        stores = [a for a in atomic_ops(F, fn) if a.field == SIZE and a.op == "store"]
        if not stores:
            continue
        n += 1
        ok = True
        for st in stores:
            inloop = [(p, e) for p, e in fn.events() if is_destroy(e) and e.get("loop") and fn.dominates(p, st.pos) or (is_destroy(e) and fn.can_reach(p, st.pos) and e.get("loop"))]
            if not inloop:
                ok = False
        R.ob("C32.shrink-destroys", fn, stores[0].node, ok, "%s destroys in a loop before storing the smaller size" % nm if ok else "%s stores a smaller size without destroying the dropped elements" % nm, sitekey=nm + ":loop", why=WHY)
    R.need("C32.shrink-destroys", n, 5, "shrinking operations")

    n = 0
    for fn in F.functions(qname=CLS + "::insert"):
        ip = [(p, e) for p, e in fn.events() if e.get("k") == "call" and e.get("name") == "insertPartial"]
        if not ip:
            continue
        n += 1
        news = [(p, e) for p, nd in fn.all_nodes() for e in [nd] if nd.get("k") == "new" and nd.get("placement")]
        R.ob("C32.no-double-ctor", fn, news[0][1].get("loc") or fn.loc if news else fn.loc, not news,
             "the inserted value is assigned into the live element left by insertPartial" if not news else "placement-new over the live (moved-from) element at the insertion point: that element's destructor never runs",
             sitekey="insert:%d-params" % len(fn.params), why=WHY)
    for fn in F.functions(qname=CLS + "::insertPartial"):
        n += 1
        news = [(p, nd) for p, nd in fn.all_nodes() if nd.get("k") == "new" and nd.get("placement")]
        mb = [(p, e) for p, e in fn.events() if is_call(e, "std::move_backward")]
        ok = bool(news) and bool(mb) and all(fn.dominates(news[0][0], p) or fn.can_reach(news[0][0], p) for p, _ in mb) and not any(fn.can_reach(p, news[0][0]) for p, _ in mb)
        R.ob("C32.no-double-ctor", fn, fn.loc, ok, "new tail element(s) constructed before move_backward assigns into them" if ok else "move_backward assigns into unconstructed storage", sitekey="insertPartial:%d-params" % len(fn.params), why=WHY)
    R.need("C32.no-double-ctor", n, 4, "insert / insertPartial overloads")

    # ---- buffer ownership flags -------------------------------------------------------------------
    # shrink_to_fit()/~ConcurrentVector free bucket b iff shouldDealloc_[b]; nothing ever resets that
    # flag when a bucket is released, so every site that installs a buffer pointer must *assign* the
    # flag for that bucket (a stale 'true' on a bucket that is now an interior slice of a larger block
    # makes the next shrink free an interior pointer / free the block twice).
    BUF = "dispenso::cv::ConVecBufferBase::buffers_"
    FLAG = "dispenso::cv::ConVecBuffer::shouldDealloc_"
    n = 0
    def flag_write(e):
        if e.get("k") not in ("bin", "compound"):
            return None
        l = strip_casts(e.get("l"))
        if isinstance(l, dict) and l.get("k") == "index" and isinstance(strip_casts(l.get("base")), dict) and strip_casts(l.get("base")).get("field") == FLAG:
            return l
        return None
    for fn in F.functions(regex=r"^dispenso::cv::ConVecBuffer::(tryAssignBuffer|allocAsNecessaryImpl)$"):
        stores = []
        for a in atomic_ops(F, fn):
            if a.op == "store" and a.path and any(isinstance(x, str) and x.endswith("::buffers_") for x in a.path if isinstance(x, str)):
                stores.append(a)
        if not stores:
            stores = [a for a in atomic_ops(F, fn) if a.op == "store" and "buffers_" in expr_str(a.node.get("obj"))]
        writes = [(p, e, flag_write(e)) for p, e in fn.events() if flag_write(e) is not None]
        for st in stores:
            n += 1
            obj = expr_str(st.node.get("obj"))
            m = re.search(r"buffers_\[(.*)\]", obj)
            idx = m.group(1) if m else None
            mine = [(p, e, l) for p, e, l in writes if expr_str(l.get("idx")) == idx and (fn.postdominates(p, st.pos) or fn.dominates(st.pos, p))]
            ok = bool(mine) and all(e.get("op") == "=" for p, e, l in mine) and all(const_val(e.get("r")) != 0 for p, e, l in mine)
            det = "installing buffers_[%s] assigns shouldDealloc_[%s]" % (idx, idx) if ok else (
                "buffers_[%s] is installed without assigning its ownership flag (%s)" % (idx, "; ".join("%s %s" % (e.get("op"), expr_str(e.get("r"))) for p, e, l in mine) or "no write"))
            R.ob("C32.buffer-ownership", fn, st.node, ok, det, sitekey=fn.qname.split("::")[-1] + ":" + (idx or "?"),
                 why="a bucket's buffer is freed iff its flag is set, and the flag survives shrink_to_fit(): a flag that is accumulated rather than assigned frees an interior pointer of a multi-bucket block")
    R.need("C32.buffer-ownership", n, 2, "sites that install a bucket buffer")
    for fn in F.functions(qname=CLS + "::shrink_to_fit"):
        n += 1
        de = [(p, e) for p, e in fn.events() if is_call(e, "dispenso::cv::dealloc")]
        ok = bool(de) and all(any(pol and "shouldDealloc" in expr_str(at) for at, pol, b in fn.guard_atoms(p)) for p, e in de)
        nul = [a for a in atomic_ops(F, fn) if a.op == "store" and "buffers_" in expr_str(a.node.get("obj")) and isinstance(strip_casts(a.node["args"][0]), dict) and (strip_casts(a.node["args"][0]).get("k") == "null" or const_val(a.node["args"][0]) == 0)]
        ok = ok and bool(nul) and all(fn.dominates(p, nul[0].pos) or fn.can_reach(p, nul[0].pos) for p, e in de)
        R.ob("C32.buffer-ownership", fn, fn.loc, ok, "buckets are freed only when flagged as owning their block, and the released bucket pointer is nulled" if ok else "shrink_to_fit frees a bucket that does not own its block, or leaves a dangling bucket pointer", sitekey="shrink_to_fit", why="each block is freed exactly once")

    # ---- iterators past the old end are formed after the buckets exist ---------------------------------------
    # the (default) pointer-caching iterator reads the bucket's base pointer when it is formed or
    # advanced; insertPartial() forms iterators beyond the old end(), into buckets that the same call
    # allocates -- advancing before the allocation caches a null base and the new elements are
    # constructed through a near-null address.
    n = 0
    ADV = re.compile(r"Iterator::operator(\+|\+=|\+\+)$")
    for fn in F.functions(qname=CLS + "::insertPartial"):
        allocs = [(p, e) for p, e in fn.events() if e.get("k") == "call" and e.get("name") in ("allocateBuffer", "allocateBufferRange")]
        advs = [(p, e) for p, e in fn.events() if e.get("k") == "call" and ADV.search(e.get("callee") or "")]
        n += 1
        ok = bool(allocs) and bool(advs) and all(any(fn.dominates(ap, p) for ap, _ in allocs) for p, _ in advs)
        bad = [e for p, e in advs if not any(fn.dominates(ap, p) for ap, _ in allocs)]
        R.ob("C32.alloc-before-advance", fn, (bad[0] if bad else advs[0][1]) if advs else fn.loc, ok,
             "every iterator advanced past the old end() is formed after allocateBuffer*()" if ok else "an iterator is advanced past the old end() before the buckets it points into are allocated (the pointer-caching iterator keeps a null bucket base)",
             sitekey="insertPartial:%d-params" % len(fn.params), why="the inserted elements must be constructed in the vector's storage")
    R.need("C32.alloc-before-advance", n, 2, "insertPartial overloads")

    # ---- shrink_to_fit keeps the look-ahead bucket --------------------------------------------------------------
    # the kHalfBufferAhead / kFullBufferAhead strategies allocate bucket b+1 while bucket b is being filled
    # and never look at it again; shrink_to_fit() must therefore start releasing at bucket b+2 (and never
    # below 2: buckets 0 and 1 are one allocation). Releasing b+1 makes the next growth spin forever on a
    # buffer nobody allocates.
    from lib.rules import eval_int, natural_loops as _nl
    n = 0
    for fn in F.functions(qname=CLS + "::shrink_to_fit"):
        loops = _nl(fn)
        starts = []
        for p, e in fn.events():
            # the loop variable's initial value: `for (size_t b = startBucket; ...)`
            if e.get("k") == "decl" and e.get("loop") is not None and e.get("init") is not None and "size_t" in (e.get("type") or "") + (e.get("ctype") or "unsigned long"):
                starts.append((p, e))
        for p, e in starts[:1]:
            n += 1
            bad, unknown = None, False
            for bucket in (0, 1, 2, 3, 7):
                v = eval_int(fn, e.get("init"), lambda x, bucket=bucket: bucket if (x.get("k") == "member" and x.get("fname") == "bucket") else None)
                if v is None:
                    unknown = True
                elif v < max(2, bucket + 2) and bad is None:
                    bad = (bucket, v)
            if unknown and bad is None:
                R.inconclusive("C32.shrink-keeps-lookahead", "cannot evaluate the first released bucket %s" % expr_str(e.get("init")))
                continue
            R.ob("C32.shrink-keeps-lookahead", fn, e, bad is None, "shrink_to_fit starts releasing at max(2, bucket + 2)" if bad is None else
                 "with the end in bucket %d, shrink_to_fit releases from bucket %d on: the look-ahead bucket %d, which the half/full-ahead strategies have already allocated and never allocate again, is freed" % (bad[0], bad[1], bad[0] + 1),
                 sitekey="first-released-bucket", why="after shrink_to_fit the vector must keep growing like std::vector (every trait combination)")
    R.need("C32.shrink-keeps-lookahead", n, 1, "shrink_to_fit release loop")
