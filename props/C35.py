"""C35 — SPSCRingBuffer is an exactly-once bounded FIFO (cursor protocol + lifetime clauses).

Decided on every CFG path of every push form (try_push x2, try_emplace, try_push_batch) and pop form
(try_pop(T&), try_pop(), try_pop_into, try_pop_batch):
  C35.producer   an element is constructed only after an acquire load of head_ showed the slot free
                 (the full test on the guarding branch), and the construction is followed on every path
                 by the release store of tail_ that publishes it; tail_ is stored nowhere else.
  C35.consumer   an element is moved out / destroyed only after an acquire load of tail_ showed it
                 present, each popped element is destroyed exactly once, and the release store of head_
                 that frees the slot follows on every path; head_ is stored nowhere else.
  C35.dtor       the destructor destroys the elements still in [head, tail): a loop that destroys
                 while head != tail (the cursors wrap: an ordering comparison is wrong).
  C35.batch-count the element count of try_pop_batch and the free space of try_push_batch, evaluated for
                 every cursor pair of every instantiated slot count S (including non powers of two),
                 equal (tail - head) mod S and S - 1 - that.
"""
import re
from lib import dataflow
from lib.facts import Pos, const_val, expr_str, is_call, order_at_least, strip_casts, subexprs
from lib.rules import atomic_ops, natural_loops

LEVEL = "other"
EXPLANATION = __doc__
NOT_DECIDED = ["FIFO order", "capacity arithmetic other than the batch counts", "use by more than one producer or consumer (outside the contract)"]
CLS = "dispenso::SPSCRingBuffer"
HEAD, TAIL = CLS + "::head_", CLS + "::tail_"
PUSH = ("try_push", "try_emplace", "try_push_batch")
POP = ("try_pop", "try_pop_into", "try_pop_batch")
WHY = "producer and consumer own disjoint slots; ownership moves only through the release store of a cursor and the acquire load of the other side"


def is_destroy(e):
    if (e.get("k") == "call" and e.get("dtorcall")) or e.get("k") == "pseudodtor":
        return True
    return e.get("k") == "call" and e.get("callee") is None and isinstance(e.get("fn"), dict) and e["fn"].get("k") == "pseudodtor"


def counted_guard_edges(fn):
    """false edges of 'counter > 0' tests where the counter is incremented in a loop of this function:
    after at least one loop iteration (one slot access) that test cannot be false."""
    from lib.rules import comparison_of
    inc = set()
    for p, e in fn.events():
        if e.get("k") == "un" and e.get("op") == "++" and e.get("loop") and isinstance(strip_casts(e.get("e")), dict):
            inc.add(strip_casts(e.get("e")).get("vid"))
    # ... or is the upper bound of such a loop (i < count): the body ran, so count > 0
    for b, t in fn.branch_blocks():
        if t.get("kind") in ("ForStmt", "WhileStmt"):
            for nn in subexprs(t["cond"]):
                if nn.get("k") == "bin" and nn.get("op") == "<" and isinstance(strip_casts(nn.get("r")), dict) and strip_casts(nn.get("r")).get("k") == "var":
                    inc.add(strip_casts(nn.get("r")).get("vid"))
    out = set()
    for b, t in fn.branch_blocks():
        c = comparison_of(t["cond"], True, lambda x: isinstance(strip_casts(x), dict) and strip_casts(x).get("k") == "var" and strip_casts(x).get("vid") in inc)
        if c and c[0] == ">" and const_val(c[1]) == 0:
            out.add((b, 1))
    return out


def run(R):
    F = R.F
    n = 0
    for fn in F.functions(cls=CLS):
        nm = fn.qname.split("::")[-1]
        if "Tracked" not in fn.raw.get("clsinst", ""):
            continue
        ops = atomic_ops(F, fn)
        if nm in PUSH:
            news = [(p, nd) for p, nd in fn.all_nodes() if nd.get("k") == "new" and nd.get("placement")]
            obs = [a for a in ops if a.field == HEAD and a.op == "load" and order_at_least(a.success_order, "acquire")]
            pub = {a.pos for a in ops if a.field == TAIL and a.op == "store" and order_at_least(a.success_order, "release")}
            for p, nd in news:
                n += 1
                ok = any(fn.dominates(a.pos, p) for a in obs)
                path = fn.path_to_exit_avoiding(p, lambda pp, ee: pp in pub, removed_edges=counted_guard_edges(fn))
                R.ob("C35.producer", fn, nd.get("loc") or fn.loc, ok and path is None, "constructed after acquire(head_), published by release store of tail_" if ok and path is None else
                     ("element constructed without observing head_ (acquire)" if not ok else "constructed element not published by a release store of tail_ on every path"), sitekey=nm, why=WHY)
            for a in ops:
                if a.field == HEAD and a.is_write:
                    n += 1
                    R.ob("C35.producer", fn, a.node, False, "a push operation writes head_ (the consumer's cursor)", sitekey=nm + ":foreign-cursor", why=WHY)
        if nm in POP:
            ds = [(p, e) for p, e in fn.events() if is_destroy(e)]
            obs = [a for a in ops if a.field == TAIL and a.op == "load" and order_at_least(a.success_order, "acquire")]
            pub = {a.pos for a in ops if a.field == HEAD and a.op == "store" and order_at_least(a.success_order, "release")}
            for p, e in ds:
                n += 1
                ok = any(fn.dominates(a.pos, p) for a in obs)
                path = fn.path_to_exit_avoiding(p, lambda pp, ee: pp in pub, removed_edges=counted_guard_edges(fn))
                R.ob("C35.consumer", fn, e, ok and path is None, "consumed after acquire(tail_), slot freed by release store of head_" if ok and path is None else
                     ("element consumed without observing tail_ (acquire)" if not ok else "consumed slot not handed back by a release store of head_ on every path"), sitekey=nm, why=WHY)
            if ds and not any(e.get("loop") for _, e in ds):
                n += 1
                dset = {p for p, _ in ds}
                res = set()
                dataflow.run(fn, 0, lambda pos, ev, st: min(st + 1, 2) if pos in dset else st, None, lambda st: res.add(st))
                R.ob("C35.consumer", fn, fn.loc, res <= {0, 1} and 1 in res, "popped element destroyed at most once per path (paths: %s)" % sorted(res), sitekey=nm + ":destroy-once", why="every element is destroyed exactly once")
            for a in ops:
                if a.field == TAIL and a.is_write:
                    n += 1
                    R.ob("C35.consumer", fn, a.node, False, "a pop operation writes tail_ (the producer's cursor)", sitekey=nm + ":foreign-cursor", why=WHY)
    for fn in F.functions(qname=CLS + "::(dtor)"):
        if "Tracked" not in fn.raw.get("clsinst", ""):
            continue
        n += 1
        ok = any(any(p.b in body and is_destroy(e) for p, e in fn.events()) for h, body, tails in natural_loops(fn))
        R.ob("C35.dtor", fn, fn.loc, ok, "remaining elements destroyed in a loop" if ok else "destructor leaves elements undestroyed", sitekey="dtor", why="every element is destroyed exactly once")
        # the drain runs from the head cursor to the tail cursor; the cursors wrap, so "not there yet"
        # is head != tail -- an ordering test skips everything when the tail has wrapped behind the head
        from lib.rules import guard_comparisons, local_defs, field_name, lvalue_path
        def derived_from(x, field, depth=3):
            x = strip_casts(x)
            if not isinstance(x, dict) or depth <= 0:
                return False
            if x.get("k") == "call" and "atomic" in x and (field_name(lvalue_path(F, fn, x.get("obj"))) or "") == field:
                return True
            if x.get("k") == "var":
                return any(d[2] == "decl" and derived_from(d[1], field, depth - 1) for d in local_defs(fn, x.get("vid")))
            return False
        for dp, de in [(p, e) for p, e in fn.events() if is_destroy(e)]:
            cmps = guard_comparisons(fn, dp, lambda x: derived_from(x, HEAD))
            cmps = [c for c in cmps if derived_from(c[1], TAIL)]
            n += 1
            if not cmps:
                R.inconclusive("C35.dtor", "the destructor's drain is not written as a walk from the head cursor to the tail cursor: no model for this shape")
                continue
            ok2 = all(c[0] == "!=" for c in cmps)
            R.ob("C35.dtor", fn, de, ok2, "drain continues while head != tail" if ok2 else "drain continues while head %s tail: the cursors wrap, so leftover elements are skipped when the tail index is behind the head index" % cmps[0][0],
                 sitekey="dtor:range", why="every element is destroyed exactly once")
    R.need("C35", n, 9, "SPSC slot access sites")
    batch_count(R)


def _derived(F, fn, x, field, depth=3):
    from lib.rules import local_defs, field_name, lvalue_path
    x = strip_casts(x)
    if not isinstance(x, dict) or depth <= 0:
        return False
    if x.get("k") == "call" and "atomic" in x and (field_name(lvalue_path(F, fn, x.get("obj"))) or "") == field:
        return True
    if x.get("k") == "var":
        return any(d[2] == "decl" and _derived(F, fn, d[1], field, depth - 1) for d in local_defs(fn, x.get("vid")))
    return False


def batch_count(R):
    """C35.batch-count: the number of elements a batch pop may take / a batch push may add is computed
    from the two cursors. For every instantiated buffer size S (power of two or not) and every pair
    of cursor values, the expression assigned on the branch that applies is evaluated and compared
    with the number of elements (t - h) mod S, resp. the free space S - 1 - that."""
    from lib.rules import eval_int
    F = R.F
    n = 0
    sizes = set()
    for nm, want in (("try_pop_batch", lambda S, h, t: (t - h) % S), ("try_push_batch", lambda S, h, t: S - 1 - ((t - h) % S))):
        for fn in F.functions(qname=CLS + "::" + nm):
            m = re.search(r"SPSCRingBuffer<.*,\s*(\d+)\s*,\s*(true|false)\s*>$", fn.raw.get("clsinst", "") or "")
            if not m:
                continue
            cap, rnd = int(m.group(1)), m.group(2) == "true"
            S = cap + 1
            if rnd:
                p2 = 1
                while p2 < S:
                    p2 *= 2
                S = p2
            sizes.add(S)
            # assignments of a plain local whose guard compares the two cursors
            defs = []
            for p, e in fn.events():
                if e.get("k") == "bin" and e.get("op") == "=" and isinstance(strip_casts(e.get("l")), dict) and strip_casts(e.get("l")).get("k") == "var":
                    gs = [(a, pol) for a, pol, _ in fn.guard_atoms(p) if isinstance(strip_casts(a), dict) and strip_casts(a).get("k") == "bin" and
                          any(_derived(F, fn, x, HEAD) for x in (strip_casts(a).get("l"), strip_casts(a).get("r"))) and any(_derived(F, fn, x, TAIL) for x in (strip_casts(a).get("l"), strip_casts(a).get("r")))]
                    if gs:
                        defs.append((p, e, gs))
                    elif any(_derived(F, fn, x, HEAD) for x in subexprs(e.get("r")) if isinstance(x, dict)) and any(_derived(F, fn, x, TAIL) for x in subexprs(e.get("r")) if isinstance(x, dict)):
                        defs.append((p, e, []))       # one branch-free formula over both cursors
                if e.get("k") == "decl" and e.get("init") is not None and any(_derived(F, fn, x, HEAD) for x in subexprs(e.get("init")) if isinstance(x, dict) and x.get("k") == "var") \
                        and any(_derived(F, fn, x, TAIL) for x in subexprs(e.get("init")) if isinstance(x, dict) and x.get("k") == "var") and not fn.guard_atoms(p):
                    defs.append((p, {"r": e.get("init"), "loc": e.get("loc"), "k": "decl"}, []))
            if not defs:
                continue
            n += 1
            bad, unknown = None, False
            for h in range(S):
                for t in range(S):
                    leaf = lambda x, h=h, t=t: (h if _derived(F, fn, x, HEAD) else (t if _derived(F, fn, x, TAIL) else None)) if x.get("k") in ("var", "call") else None
                    applicable = []
                    for p, e, gs in defs:
                        vals = [eval_int(fn, a, leaf) for a, pol in gs]
                        if any(v is None for v in vals):
                            unknown = True
                            continue
                        if all(bool(v) == pol for v, (a, pol) in zip(vals, gs)):
                            applicable.append(e)
                    for e in applicable:
                        v = eval_int(fn, e.get("r"), leaf)
                        if v is None:
                            unknown = True
                        elif v % (1 << 64) != want(S, h, t) and bad is None:
                            bad = (h, t, v % (1 << 64), want(S, h, t), expr_str(e.get("r")))
            if unknown and bad is None:
                R.inconclusive("C35.batch-count", "cannot evaluate the element count of %s (S = %d)" % (nm, S))
                continue
            R.ob("C35.batch-count", fn, defs[0][1], bad is None, "%s: count = %s for all %d cursor pairs of a %d-slot buffer" % (nm, "(tail - head) mod S" if nm == "try_pop_batch" else "S - 1 - (tail - head) mod S", S * S, S) if bad is None else
                 "%s: with head = %d, tail = %d in a %d-slot buffer `%s` gives %d, but %d element(s) %s" % (nm, bad[0], bad[1], S, bad[4], bad[2], bad[3], "are present" if nm == "try_pop_batch" else "fit"),
                 sitekey="%s:S=%d" % (nm, S), why="a batch pop must not take slots that hold no element, a batch push must not overwrite unconsumed ones")
    R.need("C35.batch-count", n, 4, "batch count computations")
    R.need("C35.batch-count", sum(1 for S in sizes if S & (S - 1)), 1, "instantiations with a non-power-of-two slot count")
