"""C28 — pipeline stages never exceed their concurrency limit (slot-accounting + witness clauses).

  C28.slot          the resource-slot accounting of the limited stages (the same rule instances as
                    C27.slot): a slot is taken by a successful decrement, held for exactly the span of
                    one stage invocation, and handed on or added back exactly once on every path.
  C28.limit-source  the slot counter of a stage is initialised from StageLimits<Stage>::limit(stage):
                    1 for a plain function (serial), max(1, limit) for stage(f, limit) -- both have
                    lower bound 1; serial_ is (limit == 1) and unlimited_ is true exactly for the
                    kStageNoLimit sentinel (evaluated for a family of limits and other inputs).
  C28.runner-count  the number of concurrent instances of the generator / single-stage runner is
                    bounded above by the stage limit (it is min(numPoolThreads, limit), possibly raised
                    to 1, and limit >= 1).
"""
import re
from lib.facts import Pos, const_val, expr_str, is_call, strip_casts, subexprs
from lib.rules import lower_bound, local_defs
from props import C27

LEVEL = "other"
EXPLANATION = __doc__
NOT_DECIDED = ["peak concurrency as a measured number", "the enqueue/empty-queue race of the completion callback"]
WHY = "a stage may never have more concurrent invocations than its limit"


def le_limit(e):
    """expression is bounded above by the StageLimits::limit(...) value (assuming limit >= 1)"""
    e = strip_casts(e)
    if not isinstance(e, dict):
        return False
    if e.get("k") == "call" and e.get("name") == "limit" and "StageLimits" in (e.get("callee") or ""):
        return True
    if const_val(e) == 1:
        return True
    if e.get("k") == "call" and e.get("callee") == "std::min":
        return any(le_limit(a) for a in e.get("args", []))
    if e.get("k") == "call" and e.get("callee") == "std::max":
        return all(le_limit(a) for a in e.get("args", []))
    if e.get("k") == "construct" and len(e.get("args", [])) == 1:
        return le_limit(e["args"][0])
    return False


def run(R):
    F = R.F
    n = C27.check_slots(R, "C28.slot")
    R.need("C28.slot", n, 6, "resource slot sites")

    n = 0
    for fn in F.functions(qname="dispenso::detail::StageLimits::limit"):
        rets = [e for _, e in fn.events() if e.get("k") == "return"]
        for e in rets:
            n += 1
            lb = lower_bound(F, fn, e.get("e"))
            R.ob("C28.limit-source", fn, e, lb is not None and lb >= 1, "%s returns %s (lower bound %s)" % (fn.raw.get("clsinst", "")[:70], expr_str(e.get("e")), lb), sitekey="StageLimits", why="a limit below 1 would stall the stage; a plain function must be serial")
            if "Stage<" not in fn.raw.get("clsinst", "").split("StageLimits<", 1)[-1][:40]:
                R.ob("C28.limit-source", fn, e, const_val(e.get("e")) == 1, "a plain function stage has limit %s" % const_val(e.get("e")), sitekey="StageLimits-plain", why="a stage given as a plain function is serial")
    for fn in F.fns:
        if re.search(r"dispenso::detail::(TransformPipe|Pipe)::\(ctor\)$", fn.qname):
            for p, e in fn.events():
                if e.get("k") == "init" and e.get("fname") == "tasks_" and "LimitGatedScheduler" in str(e.get("init", {}).get("type", "")):
                    n += 1
                    ok = any(nn.get("k") == "call" and nn.get("name") == "limit" and "StageLimits" in (nn.get("callee") or "") for nn in subexprs(e.get("init")))
                    R.ob("C28.limit-source", fn, e, ok, "stage scheduler built with StageLimits::limit(stage_)" if ok else "stage scheduler not initialised from the stage's limit", sitekey="scheduler-init", why=WHY)
    for fn in F.functions(qname="dispenso::detail::LimitGatedScheduler::Impl::(ctor)"):
        res = fn.params[1]["vid"] if len(fn.params) > 1 else None
        for p, e in fn.events():
            if e.get("k") == "init" and e.get("fname") == "resources_":
                n += 1
                ok = any(nn.get("k") == "var" and nn.get("vid") == res for nn in subexprs(e.get("init"))) and not any(nn.get("k") == "bin" for nn in subexprs(e.get("init")))
                R.ob("C28.limit-source", fn, e, ok, "resources_ starts at the stage limit" if ok else "slot counter not initialised to the limit: %s" % expr_str(e.get("init")), sitekey="resources-init", why=WHY)
            if e.get("k") == "init" and e.get("fname") == "serial_":
                n += 1
                i = strip_casts(e.get("init"))
                ok = isinstance(i, dict) and i.get("k") == "bin" and i.get("op") == "==" and const_val(i.get("r")) == 1
                R.ob("C28.limit-source", fn, e, ok, "serial_ = (limit == 1)" if ok else "serial fast path enabled for %s" % expr_str(i), sitekey="serial-flag", why="the inline continuation is only safe when one item can be in the stage at a time")
            if e.get("k") == "init" and e.get("fname") == "unlimited_":
                # the ungated path is for the no-limit sentinel only -- whatever else the initialiser
                # looks at (pool size, ...): the calling thread and other application threads execute
                # stage tasks too, so 'limit >= pool threads' does not make a limit unreachable
                from lib.rules import eval_int
                n += 1
                SENT = (1 << 63) - 1
                bad, unknown = None, False
                for other in (0, 1, 2, 8, 1000):
                    for rv in (1, 2, 8, 1000, SENT - 1, SENT):
                        def leaf(x, rv=rv, other=other):
                            if x.get("k") == "var" and x.get("vid") == res:
                                return rv
                            if x.get("k") == "call" and x.get("name") == "max" and "numeric_limits" in (x.get("callee") or ""):
                                return SENT
                            if x.get("k") in ("call", "member") or (x.get("k") == "var" and x.get("vk") not in ("param", "local")):
                                return other if const_val(x) is None else None
                            return None
                        v = eval_int(fn, e.get("init"), leaf)
                        if v is None:
                            unknown = True
                        elif bool(v) != (rv == SENT) and bad is None:
                            bad = (rv, bool(v), other)
                if unknown and bad is None:
                    R.inconclusive("C28.limit-source", "cannot evaluate the unlimited_ initialiser %s" % expr_str(e.get("init")))
                else:
                    R.ob("C28.limit-source", fn, e, bad is None, "unlimited_ is true exactly for the kStageNoLimit sentinel" if bad is None else
                         "unlimited_ = %s is %s for a stage limit of %s (other inputs = %s): a finite limit takes the ungated path" % (expr_str(e.get("init")), bad[1], bad[0], bad[2]),
                         sitekey="unlimited-flag", why=WHY)
    R.need("C28.limit-source", n, 5, "limit sources")

    n = 0
    for fn in F.functions(qname="dispenso::detail::Pipe::execute"):
        if fn.params:
            continue
        for b, t in fn.branch_blocks():
            c = strip_casts(t["cond"])
            if isinstance(c, dict) and c.get("k") == "bin" and c.get("op") == "<" and t.get("kind") == "ForStmt":
                bound = strip_casts(c.get("r"))
                if isinstance(bound, dict) and bound.get("k") == "var":
                    defs = [d for d in local_defs(fn, bound["vid"])]
                    n += 1
                    ok = bool(defs) and all(d[2] == "decl" and le_limit(d[1]) for d in defs)
                    R.ob("C28.runner-count", fn, t.get("loc"), ok, "runner count %s is bounded by the stage limit" % expr_str(defs[0][1], 6) if ok else "runner count is not bounded by the stage limit: %s" % (expr_str(defs[0][1], 6) if defs else "?"), sitekey="runners", why=WHY)
    R.need("C28.runner-count", n, 2, "runner loops")
