"""C25 — ResourcePool bounds and exclusivity (ownership-transfer clause).

Decided on every CFG path of Resource<T> / ResourcePool<T>:
  C25.handle-moves   the storage-balance analysis of C40 applied to Resource::resource_: a handle's
                     pointer is overwritten only when the handle is known empty or after recycle() gave
                     the old resource back; moving from a handle nulls the source (so exactly one handle
                     returns each resource); the destructor recycles; recycle() tests for null.
  C25.one-per-handle acquire() performs exactly one wait_dequeue per returned handle, the private
                     constructor is called only from acquire(), and recycle enqueues exactly once.
  C25.pool-lifetime  the constructor constructs and enqueues exactly 'size' objects (loop bound is the
                     size parameter); the destructor dequeues and destroys exactly size_ objects and
                     then frees the backing store.
"""
import re
from lib import dataflow
from lib.facts import Pos, const_val, expr_str, is_call, normalize_cond, strip_casts, subexprs
from lib.rules import callers_of, natural_loops, comparison_of

LEVEL = "other"
EXPLANATION = __doc__
NOT_DECIDED = ["the blocking semaphore bound of moodycamel::BlockingConcurrentQueue (at most size held)", "interleavings"]
RES = "dispenso::Resource::resource_"
WHY = "each resource is held by at most one handle and returned exactly once"


def base_key(e):
    e = strip_casts(e)
    if isinstance(e, dict) and e.get("k") == "this":
        return "this"
    if isinstance(e, dict) and e.get("k") == "var":
        return "var:%s" % e.get("vid")
    return None


def run(R):
    F = R.F
    n = 0
    for fn in F.functions(cls="dispenso::Resource"):
        nm = fn.qname.split("::")[-1]
        if nm not in ("(ctor)", "operator=", "(dtor)"):
            continue
        if nm == "(ctor)" and not (fn.params and "Resource" in fn.params[0].get("type", "")):
            continue
        is_ctor = nm == "(ctor)"
        n += 1
        def get(st, k):
            return dict(st).get(k, "D" if (is_ctor and k == "this") else "E")
        def setk(st, k, v):
            d = dict(st)
            d[k] = v
            return tuple(sorted(d.items()))
        moved_from = []
        def transfer(pos, ev, st):
            k = ev.get("k")
            if k == "call" and ev.get("name") == "recycle" and (ev.get("cls") or "").endswith("Resource"):
                b = base_key(ev.get("obj"))
                return setk(st, b or "this", "D")
            tgt, rhs = None, None
            if k == "bin" and ev.get("op") == "=" and isinstance(strip_casts(ev.get("l")), dict) and strip_casts(ev.get("l")).get("field") == RES:
                tgt, rhs = base_key(strip_casts(ev.get("l")).get("base")), ev.get("r")
            if k == "init" and ev.get("field") == RES:
                tgt, rhs = "this", ev.get("init")
            if tgt:
                null = isinstance(strip_casts(rhs), dict) and strip_casts(rhs).get("k") == "null"
                if tgt == "this" and get(st, "this") == "E":
                    raise dataflow.Violation("the handle's resource pointer is overwritten while it may still hold a resource (that resource is never returned to the pool)")
                if tgt != "this":
                    if not null:
                        raise dataflow.Violation("the moved-from handle is not nulled")
                    moved_from.append(tgt)
                    return setk(st, tgt, "D")
                return setk(st, "this", "D" if null else "E")
            return st
        vios, stats = dataflow.run(fn, (), transfer, None, None)
        if not vios and nm in ("(ctor)", "operator="):
            # the source must be nulled on every path that took its pointer
            took = [(p, e) for p, e in fn.events() if (e.get("k") == "init" and e.get("field") == RES) or (e.get("k") == "bin" and e.get("op") == "=" and isinstance(strip_casts(e.get("l")), dict) and strip_casts(e.get("l")).get("field") == RES and base_key(strip_casts(e.get("l")).get("base")) == "this")]
            nulls = {p for p, e in fn.events() if e.get("k") == "bin" and e.get("op") == "=" and isinstance(strip_casts(e.get("l")), dict) and strip_casts(e.get("l")).get("field") == RES and base_key(strip_casts(e.get("l")).get("base")) != "this" and strip_casts(e.get("r")).get("k") == "null"}
            for p, e in took:
                if fn.path_to_exit_avoiding(p, lambda pp, ee: pp in nulls) is not None:
                    vios.append({"msg": "a path takes the other handle's resource without nulling it: two handles would return the same resource", "ev": e, "trail": []})
        if not vios and nm == "(dtor)":
            if fn.path_to_exit_avoiding(Pos(fn.entry, -1), lambda pp, ee: ee.get("k") == "call" and ee.get("name") == "recycle") is not None:
                vios.append({"msg": "destructor can return without recycling the resource", "ev": None, "trail": []})
        R.ob("C25.handle-moves", fn, fn.loc, not vios, "ownership of the resource moves/returns exactly once" if not vios else vios[0]["msg"], sitekey=nm, why=WHY)
    for fn in F.functions(qname="dispenso::Resource::recycle"):
        n += 1
        calls = [(p, e) for p, e in fn.events() if e.get("k") == "call" and e.get("name") == "recycle"]
        ok = bool(calls) and all(any(pol and isinstance(strip_casts(at), dict) and strip_casts(at).get("field") == RES for at, pol, b in fn.guard_atoms(p)) for p, _ in calls)
        R.ob("C25.handle-moves", fn, fn.loc, ok, "recycle() returns the resource only if the handle holds one" if ok else "recycle() does not test for an empty (moved-from) handle", sitekey="recycle", why=WHY)
    R.need("C25.handle-moves", n, 4, "Resource move/destroy functions")

    n = 0
    for fn in F.functions(qname="dispenso::ResourcePool::acquire"):
        n += 1
        deq = [e for _, e in fn.events() if e.get("k") == "call" and e.get("name") == "wait_dequeue"]
        rets = [e for _, e in fn.events() if e.get("k") == "return"]
        R.ob("C25.one-per-handle", fn, fn.loc, len(deq) == 1 and len(rets) == 1 and not any(e.get("loop") for e in deq), "one wait_dequeue per acquire()" if len(deq) == 1 else "%d dequeues per acquire()" % len(deq), sitekey="acquire", why=WHY)
    for cfn, p, e in callers_of(F, r"^dispenso::Resource::\(ctor\)$"):
        if e.get("k") == "construct" and len(e.get("args", [])) == 2:
            n += 1
            R.ob("C25.one-per-handle", cfn, e, cfn.qname == "dispenso::ResourcePool::acquire", "handle constructed in %s" % cfn.qname, sitekey="handle-ctor", why="only acquire() may mint a handle")
    for fn in F.functions(qname="dispenso::ResourcePool::recycle"):
        n += 1
        enq = [e for _, e in fn.events() if e.get("k") == "call" and e.get("name") == "enqueue"]
        R.ob("C25.one-per-handle", fn, fn.loc, len(enq) == 1, "one enqueue per recycle", sitekey="pool-recycle", why=WHY)
    R.need("C25.one-per-handle", n, 3, "acquire / recycle")

    n = 0
    for fn in F.functions(qname="dispenso::ResourcePool::(ctor)"):
        n += 1
        size_vid = fn.params[0]["vid"] if fn.params else None
        ok = False
        for h, body, tails in natural_loops(fn):
            c = comparison_of((fn.term(h) or {}).get("cond"), True, lambda x: isinstance(strip_casts(x), dict) and strip_casts(x).get("k") == "var")
            if c and c[0] == "<" and isinstance(strip_casts(c[1]), dict) and strip_casts(c[1]).get("vid") == size_vid:
                if any(p.b in body and e.get("k") == "call" and e.get("name") == "enqueue" for p, e in fn.events()) and any(p.b in body and nd.get("k") == "new" for p, nd in fn.all_nodes()):
                    ok = True
        R.ob("C25.pool-lifetime", fn, fn.loc, ok, "constructs and enqueues exactly 'size' objects" if ok else "constructor does not create 'size' resources", sitekey="ctor", why="the pool holds exactly size resources")
    for fn in F.functions(qname="dispenso::ResourcePool::(dtor)"):
        n += 1
        ok = False
        for h, body, tails in natural_loops(fn):
            c = comparison_of((fn.term(h) or {}).get("cond"), True, lambda x: isinstance(strip_casts(x), dict) and strip_casts(x).get("k") == "var")
            if c and c[0] == "<" and isinstance(strip_casts(c[1]), dict) and strip_casts(c[1]).get("fname") == "size_":
                inbody = [e for p, e in fn.events() if p.b in body]
                if any(e.get("k") == "call" and e.get("name") == "wait_dequeue" for e in inbody) and any((e.get("k") == "call" and e.get("dtorcall")) or e.get("k") == "pseudodtor" or (e.get("k") == "call" and e.get("callee") is None) for e in inbody):
                    ok = True
        frees = [(p, e) for p, e in fn.events() if e.get("k") == "call" and (e.get("callee") or "").endswith("alignedFree")]
        ok = ok and len(frees) == 1 and not frees[0][1].get("loop")
        R.ob("C25.pool-lifetime", fn, fn.loc, ok, "dequeues and destroys size_ objects, then frees the backing store once" if ok else "destructor does not destroy exactly size_ resources and free the store", sitekey="dtor", why="every resource is destroyed exactly once by the pool's destruction")
    R.need("C25.pool-lifetime", n, 2, "ResourcePool constructor/destructor")
