"""C25 — ResourcePool bounds and exclusivity (ownership-transfer clause).

Decided on every CFG path of Resource<T> / ResourcePool<T>:
  C25.handle-moves   the storage-balance analysis of C40 applied to Resource::resource_: a handle's
                     pointer is overwritten only when the handle is known empty or after recycle() gave
                     the old resource back; moving from a handle nulls the source (so exactly one handle
                     returns each resource); the destructor recycles; recycle() tests for null.
  C25.one-per-handle acquire() performs exactly one wait_dequeue per returned handle, the private
                     constructor is called only from acquire(), and recycle enqueues exactly once.
  C25.pool-lifetime  the constructor constructs and enqueues exactly 'size' objects (loop bound is the
                     size parameter); the destructor dequeues and destroys exactly size_ objects and
                     then frees the backing store.
"""
import re
from lib import dataflow
from lib.facts import Pos, const_val, expr_str, is_call, normalize_cond, strip_casts, subexprs
from lib.rules import callers_of, natural_loops, comparison_of

LEVEL = "other"
EXPLANATION = __doc__
NOT_DECIDED = ["the blocking semaphore bound of moodycamel::BlockingConcurrentQueue (at most size held)", "interleavings"]
RES = "dispenso::Resource::resource_"
WHY = "each resource is held by at most one handle and returned exactly once"


def base_key(e):
    e = strip_casts(e)
    if isinstance(e, dict) and e.get("k") == "this":
        return "this"
    if isinstance(e, dict) and e.get("k") == "var":
        return "var:%s" % e.get("vid")
    return None


def run(R):
    F = R.F
    n = 0
    # does Resource::recycle() leave the pointer null after returning it? (today: no -> "stale")
    recycle_nulls = False
    for rf in F.functions(qname="dispenso::Resource::recycle"):
        pc = [p for p, e in rf.events() if e.get("k") == "call" and e.get("name") == "recycle"]
        nl = [p for p, e in rf.events() if e.get("k") == "bin" and e.get("op") == "=" and isinstance(strip_casts(e.get("l")), dict) and strip_casts(e.get("l")).get("field") == RES
              and isinstance(strip_casts(e.get("r")), dict) and (strip_casts(e.get("r")).get("k") == "null" or const_val(strip_casts(e.get("r"))) == 0)]
        recycle_nulls = bool(pc) and all(any(rf.postdominates(q, p0) for q in nl) for p0 in pc)
    for fn in F.functions(cls="dispenso::Resource"):
        nm = fn.qname.split("::")[-1]
        if nm not in ("(ctor)", "operator=", "(dtor)"):
            continue
        if nm == "(ctor)" and not (fn.params and "Resource" in fn.params[0].get("type", "")):
            continue
        is_ctor = nm == "(ctor)"
        n += 1
        # Token model. Each handle (this / the parameter) maps to what its resource_ holds:
        #   U uninitialised (this, in a constructor) | N null | S stale: already returned to the pool
        #   but still non-null | L:<h> the live resource that handle h held on entry.
        # recycle(h) returns h's live token (L -> S; the real recycle() does not null the pointer).
        # Writes are assignments, constructor initialisers, std::swap and std::exchange on resource_.
        others = ["var:%s" % prm["vid"] for prm in fn.params if "Resource" in prm.get("type", "")]
        init = {"this": "U" if is_ctor else "L:this"}
        for o in others:
            init[o] = "L:" + o
        init["@ret"] = ""   # tokens already returned to the pool
        init = tuple(sorted(init.items()))

        def get(st, k):
            return dict(st).get(k, "L:" + k)

        def setk(st, k, v):
            d = dict(st)
            d[k] = v
            return tuple(sorted(d.items()))

        def res_base(x):
            x = strip_casts(x)
            if isinstance(x, dict) and x.get("k") == "member" and x.get("field") == RES:
                return base_key(x.get("base")) or "?"
            return None

        pending = {}

        def value_of(rhs, st):
            r = strip_casts(rhs)
            if isinstance(r, dict) and r.get("k") == "null":
                return "N"
            if isinstance(r, dict) and const_val(r) == 0:
                return "N"
            b = res_base(r)
            if b:
                return get(st, b)
            if isinstance(r, dict) and r.get("sid") in pending:
                return pending[r["sid"]]
            return None

        def write(st, tgt, val, what):
            if val is None:
                raise dataflow.Violation("resource_ of a handle is written from a value this analysis does not track (%s)" % what)
            old = get(st, tgt)
            if old.startswith("L:") and old not in [v for k, v in st if k != tgt and k != "@ret"] and val != old:
                raise dataflow.Violation("the handle's resource pointer is overwritten while it still holds a resource (that resource is never returned to the pool)")
            return setk(st, tgt, val)

        def transfer(pos, ev, st):
            k = ev.get("k")
            if k == "call" and ev.get("name") == "recycle" and (ev.get("cls") or "").endswith("Resource"):
                b = base_key(ev.get("obj")) or "this"
                tok = get(st, b)
                if tok == "S":
                    raise dataflow.Violation("recycle() on a handle whose (non-null) pointer was already returned: the resource is enqueued twice")
                if tok.startswith("L:"):
                    st = setk(st, "@ret", dict(st)["@ret"] + "|" + tok)
                    return setk(st, b, "N" if recycle_nulls else "S")
                return st
            if k == "call" and ev.get("name") == "swap" and len(ev.get("args", [])) == 2:
                a, b = res_base(ev["args"][0]), res_base(ev["args"][1])
                if a and b:
                    ta, tb = get(st, a), get(st, b)
                    return setk(setk(st, a, tb), b, ta)
                return st
            if k == "call" and ev.get("name") == "exchange" and len(ev.get("args", [])) == 2:
                a = res_base(ev["args"][0])
                if a:
                    pending[ev["sid"]] = get(st, a)
                    return write(st, a, value_of(ev["args"][1], st), "std::exchange")
                return st
            if k == "bin" and ev.get("op") == "=" and res_base(ev.get("l")):
                return write(st, res_base(ev.get("l")), value_of(ev.get("r"), st), expr_str(ev.get("r")))
            if k == "init" and ev.get("field") == RES:
                return write(st, "this", value_of(ev.get("init"), st), expr_str(ev.get("init")))
            if k == "call" and ev.get("name") not in ("recycle", "swap", "exchange"):
                for a in ev.get("args", []):
                    aa = strip_casts(a)
                    if isinstance(aa, dict) and aa.get("k") == "unary" and aa.get("op") == "&" and res_base(aa.get("e")):
                        raise dataflow.Violation("address of resource_ escapes to %s (untracked write)" % ev.get("name"))
            return st

        def at_exit(st):
            d = dict(st)
            ret = [t for t in d.pop("@ret").split("|") if t]
            if nm == "(dtor)":
                return None
            toks = [v for v in d.values()]
            for h, v in d.items():
                if v == "S":
                    return "handle %s is left holding a non-null pointer to a resource that was already returned to the pool: its destructor returns it a second time (two holders of one resource)" % ("*this" if h == "this" else "(the moved-from one)")
                if v == "U":
                    return "constructor leaves resource_ uninitialised"
            live = [v for v in toks if v.startswith("L:")]
            if len(live) != len(set(live)):
                return "a path takes the other handle's resource without nulling it: two handles would return the same resource"
            for h in list(d):
                t = "L:" + h
                if is_ctor and h == "this":
                    continue
                if t not in live and t not in ret:
                    return "the resource held by %s on entry is neither returned to the pool nor held by any handle afterwards (leaked: acquire() eventually blocks forever)" % ("*this" if h == "this" else "the source handle")
            return None

        vios, stats = dataflow.run(fn, init, transfer, None, at_exit)
        if not vios and nm == "(dtor)":
            if fn.path_to_exit_avoiding(Pos(fn.entry, -1), lambda pp, ee: ee.get("k") == "call" and ee.get("name") == "recycle") is not None:
                vios.append({"msg": "destructor can return without recycling the resource", "ev": None, "trail": []})
        R.ob("C25.handle-moves", fn, fn.loc, not vios, "ownership of the resource moves/returns exactly once" if not vios else vios[0]["msg"], sitekey=nm, why=WHY)
    for fn in F.functions(qname="dispenso::Resource::recycle"):
        n += 1
        calls = [(p, e) for p, e in fn.events() if e.get("k") == "call" and e.get("name") == "recycle"]
        ok = bool(calls) and all(any(pol and isinstance(strip_casts(at), dict) and strip_casts(at).get("field") == RES for at, pol, b in fn.guard_atoms(p)) for p, _ in calls)
        R.ob("C25.handle-moves", fn, fn.loc, ok, "recycle() returns the resource only if the handle holds one" if ok else "recycle() does not test for an empty (moved-from) handle", sitekey="recycle", why=WHY)
    R.need("C25.handle-moves", n, 4, "Resource move/destroy functions")

    n = 0
    for fn in F.functions(qname="dispenso::ResourcePool::acquire"):
        n += 1
        deq = [e for _, e in fn.events() if e.get("k") == "call" and e.get("name") == "wait_dequeue"]
        rets = [e for _, e in fn.events() if e.get("k") == "return"]
        R.ob("C25.one-per-handle", fn, fn.loc, len(deq) == 1 and len(rets) == 1 and not any(e.get("loop") for e in deq), "one wait_dequeue per acquire()" if len(deq) == 1 else "%d dequeues per acquire()" % len(deq), sitekey="acquire", why=WHY)
    for cfn, p, e in callers_of(F, r"^dispenso::Resource::\(ctor\)$"):
        if e.get("k") == "construct" and len(e.get("args", [])) == 2:
            n += 1
            R.ob("C25.one-per-handle", cfn, e, cfn.qname == "dispenso::ResourcePool::acquire", "handle constructed in %s" % cfn.qname, sitekey="handle-ctor", why="only acquire() may mint a handle")
    for fn in F.functions(qname="dispenso::ResourcePool::recycle"):
        n += 1
        enq = [e for _, e in fn.events() if e.get("k") == "call" and e.get("name") == "enqueue"]
        R.ob("C25.one-per-handle", fn, fn.loc, len(enq) == 1, "one enqueue per recycle", sitekey="pool-recycle", why=WHY)
    R.need("C25.one-per-handle", n, 3, "acquire / recycle")

    n = 0
    for fn in F.functions(qname="dispenso::ResourcePool::(ctor)"):
        n += 1
        size_vid = fn.params[0]["vid"] if fn.params else None
        ok = False
        for h, body, tails in natural_loops(fn):
            c = comparison_of((fn.term(h) or {}).get("cond"), True, lambda x: isinstance(strip_casts(x), dict) and strip_casts(x).get("k") == "var")
            bound = strip_casts(fn.expand_expr(c[1], use_block=h)) if c else None
            if c and c[0] in ("<", "!=") and isinstance(bound, dict) and bound.get("vid") == size_vid:
                if any(p.b in body and e.get("k") == "call" and e.get("name") == "enqueue" for p, e in fn.events()) and any(p.b in body and nd.get("k") == "new" for p, nd in fn.all_nodes()):
                    ok = True
        R.ob("C25.pool-lifetime", fn, fn.loc, ok, "constructs and enqueues exactly 'size' objects" if ok else "constructor does not create 'size' resources", sitekey="ctor", why="the pool holds exactly size resources")
    for fn in F.functions(qname="dispenso::ResourcePool::(dtor)"):
        n += 1
        ok = False
        for h, body, tails in natural_loops(fn):
            c = comparison_of((fn.term(h) or {}).get("cond"), True, lambda x: isinstance(strip_casts(x), dict) and strip_casts(x).get("k") == "var")
            bound = strip_casts(fn.expand_expr(c[1], use_block=h)) if c else None
            if c and c[0] in ("<", "!=") and isinstance(bound, dict) and bound.get("fname") == "size_":
                inbody = [e for p, e in fn.events() if p.b in body]
                if any(e.get("k") == "call" and e.get("name") == "wait_dequeue" for e in inbody) and any((e.get("k") == "call" and e.get("dtorcall")) or e.get("k") == "pseudodtor" or (e.get("k") == "call" and e.get("callee") is None) for e in inbody):
                    ok = True
        frees = [(p, e) for p, e in fn.events() if e.get("k") == "call" and (e.get("callee") or "").endswith("alignedFree")]
        ok = ok and len(frees) == 1 and not frees[0][1].get("loop")
        R.ob("C25.pool-lifetime", fn, fn.loc, ok, "dequeues and destroys size_ objects, then frees the backing store once" if ok else "destructor does not destroy exactly size_ resources and free the store", sitekey="dtor", why="every resource is destroyed exactly once by the pool's destruction")
    R.need("C25.pool-lifetime", n, 2, "ResourcePool constructor/destructor")
