"""C47 — ForceQueuingTag never runs the functor on the caller (call-graph reachability clause).

Entry points: every function in ThreadPool / TaskSet / ConcurrentTaskSet (and TaskSetBase) that takes a
ForceQueuingTag parameter. Decided over the resolved call graph (callees with bodies in the parsed
units, restricted to dispenso::, lambdas that are merely *created* are not entered):
  C47.no-inline    no function reachable from an FQ entry point contains an invocation of a functor /
                   generated task on the calling thread, except ThreadPool::forceEnqueue's inline call,
                   which must be dominated by 'numThreads_ == 0' (a pool without threads cannot queue).
  C47.stays-fq     an FQ entry point never calls a scheduling function of the same family that lacks
                   the tag (schedule / schedulePlaced / scheduleBulk / scheduleBulkImpl without FQ).
"""
import re
from lib.facts import Pos, const_val, expr_str, is_call, strip_casts, strip_move, subexprs
from lib.rules import body_invocations, field_name, lvalue_path

LEVEL = "other"
EXPLANATION = __doc__
NOT_DECIDED = ["that the queued task is eventually run (C01)", "zero-thread pools (documented: run inline)"]
WHY = "with ForceQueuingTag the functor must not run before schedule() returns to the caller"
FAMILY = re.compile(r"^dispenso::(ThreadPool|TaskSet|ConcurrentTaskSet|TaskSetBase)::(schedule|schedulePlaced|scheduleBulk|scheduleBulkPlaced|scheduleBulkImpl|scheduleBulkImplPlaced)$")


def has_fq(fn):
    return any("ForceQueuingTag" in p.get("type", "") for p in fn.params)


def run(R):
    F = R.F
    entries = [f for f in F.fns if has_fq(f) and re.match(r"^dispenso::(ThreadPool|TaskSet|ConcurrentTaskSet|TaskSetBase)::", f.qname)]
    if not R.need("C47", len({f.pattern_key for f in entries}), 6, "ForceQueuingTag entry points"):
        return
    n = 0
    for ent in entries:
        seen = {}
        stack = [(ent, [ent.qname.split("::")[-1]])]
        while stack:
            fn, chain = stack.pop()
            k = (fn.tu, fn.id)
            if k in seen:
                continue
            seen[k] = chain
            for pos, ev, var, via in body_invocations(fn, var_kinds=("param", "local")):
                n += 1
                if fn.qname == "dispenso::ThreadPool::forceEnqueue":
                    ok = False
                    for at, pol, b in fn.guard_atoms(pos):
                        a = strip_casts(at)
                        if (not pol) and isinstance(a, dict) and a.get("k") == "call" and "atomic" in a and field_name(lvalue_path(F, fn, a.get("obj"))) == "dispenso::ThreadPool::numThreads_":
                            ok = True
                    R.ob("C47.no-inline", fn, ev, ok, "inline run only when numThreads_ == 0 (reached via %s)" % " > ".join(chain), sitekey="forceEnqueue:f()", why=WHY)
                else:
                    R.ob("C47.no-inline", fn, ev, False, "%s() can run on the caller of a force-queued schedule (reached via %s)" % (var.get("name"), " > ".join(chain)), sitekey="%s:%s()" % (fn.qname.split("::")[-1], var.get("name")), why=WHY)
            for pos, ev in fn.events():
                if ev.get("k") not in ("call", "construct"):
                    continue
                cal = ev.get("callee") or ""
                if not cal.startswith("dispenso::"):
                    continue
                if ev.get("opcall") == "()":
                    continue   # a functor invocation is an inline site (judged above), not a call-graph edge
                cf = F.callee_fn(fn, ev)
                if fn is ent and FAMILY.match(cal) and cf is not None and not has_fq(cf) and not cal.endswith("ForceQueue"):
                    n += 1
                    R.ob("C47.stays-fq", fn, ev, False, "FQ entry point calls %s, which has no ForceQueuingTag and may run the functor inline" % cal, sitekey="call:" + cal.split("::")[-1], why=WHY)
                if cf is not None and len(chain) < 7:
                    stack.append((cf, chain + [cal.split("::")[-1]]))
        R.ob("C47.no-inline", ent, ent.loc, True, "call graph explored: %d functions reachable" % len(seen), sitekey="entry:" + ent.qname.split("::")[-2] + "::" + ent.qname.split("::")[-1], why=WHY)
    R.need("C47.no-inline", n, 1, "inline sites on FQ paths (forceEnqueue's guarded one)")
