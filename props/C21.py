"""C21 — CompletionEvent and Latch waits never miss a wakeup.

Decided (structural, necessary conditions):
  C21.zero-detect   every CompletionEventImpl::notify() issued by a Latch method is guarded by a
                    comparison of the *result of the fetch_sub on the status word* with the *amount
                    subtracted* that is true exactly when this arrival took the count to zero
                    (prev == n, or prev <= n). The waiter is parked in the kernel and is woken only
                    by that arrival.
  C21.notify-wakes  in CompletionEventImpl::notify the store of the completed status is followed on
                    every path by futex(FUTEX_WAKE, INT_MAX) (wake *all* waiters).
  C21.wait-loop     in CompletionEventImpl::wait the function can only be left on the edge where an
                    acquire load of the status equals completedStatus, and the value given to the
                    kernel to compare is the value loaded in that same loop test.
  C21.latch-wait    Latch::wait / arrive_and_wait return only through CompletionEventImpl::wait(0) or
                    after observing zero / the final arrival; if they park with waitUntilChanged(v),
                    v is the very value whose test sent them there (one load, not two).
"""
from lib.rules import (atomic_ops, comparison_of, guard_comparisons, is_atomic_node, lvalue_path,
                       field_name, same_value, unwrap_assign)
from lib.facts import Pos, const_val, expr_str, is_call, order_at_least, strip_casts, subexprs

LEVEL = "other"
EXPLANATION = __doc__
NOT_DECIDED = ["interleavings of waiters and notifiers", "kernel futex semantics", "non-Linux branches of completion_event_impl.h"]
STATUS = "dispenso::detail::CompletionEventImpl::status_"
NOTIFY = "dispenso::detail::CompletionEventImpl::notify"
FUTEX = "dispenso::detail::futex"


def run(R):
    F = R.F
    # ---- zero-detect -----------------------------------------------------------------------
    nsub = 0
    for fn in F.functions(cls="dispenso::Latch"):
        subs = [a for a in atomic_ops(F, fn) if a.field == STATUS and a.op == "fetch_sub"]
        if not subs:
            continue
        nsub += len(subs)
        notifies = fn.calls(NOTIFY)
        if not notifies:
            R.ob("C21.zero-detect", fn, subs[0].node, False,
                 "decrements the latch count but never calls notify(): a parked waiter is never woken",
                 sitekey="fetch_sub/no-notify", why="the arrival that reaches zero must wake the waiters")
            continue
        for pos, ev in notifies:
            ok = False
            seen = []
            for sub in subs:
                amount = sub.node["args"][0]
                sid = sub.node["sid"]
                for op, other, side, b in guard_comparisons(fn, pos, lambda x: isinstance(x, dict) and x.get("sid") == sid):
                    seen.append("prev %s %s (subtracted %s)" % (op, expr_str(other), expr_str(amount)))
                    if op in ("==", "<=") and same_value(other, amount, fn):
                        ok = True
            R.ob("C21.zero-detect", fn, ev, ok,
                 "notify guarded by: " + ("; ".join(seen) if seen else "no comparison of the fetch_sub result"),
                 sitekey="notify", why="the waiter is woken only by the arrival that takes the count to zero: "
                 "the value compared with the result of fetch_sub(a) must be a")
    R.need("C21.zero-detect", nsub, 2, "fetch_sub on the latch status word in Latch methods")

    # ---- notify = store then wake-all -----------------------------------------------------
    n = 0
    for fn in F.functions(qname=NOTIFY):
        stores = [a for a in atomic_ops(F, fn) if a.field == STATUS and a.op in ("store", "exchange")]
        for st in stores:
            n += 1
            def is_wake_all(p, ev):
                if not is_call(ev, FUTEX):
                    return False
                a = ev.get("args", [])
                opv = const_val(a[1]) if len(a) > 1 else None
                cnt = const_val(a[2]) if len(a) > 2 else None
                return opv is not None and (opv & 0x7f) == 1 and cnt is not None and cnt >= 0x7fffffff
            path = fn.path_to_exit_avoiding(st.pos, is_wake_all)
            R.ob("C21.notify-wakes", fn, st.node, path is None,
                 "every path from the status store to the exit passes futex(FUTEX_WAKE, INT_MAX)" if path is None
                 else "a path from the status store reaches the exit without waking all waiters",
                 sitekey="status-store", path=fn.describe_path(path) if path else None,
                 why="a waiter parked in FUTEX_WAIT is only released by a wake; the count must be 'all'")
            R.ob("C21.notify-order", fn, st.node, order_at_least(st.success_order, "release"),
                 "status store order %s" % st.success_order, sitekey="status-store",
                 why="the completed status publishes what preceded notify()")
    R.need("C21.notify-wakes", n, 1, "status store in CompletionEventImpl::notify")

    # ---- wait loop ----------------------------------------------------------------------------
    n = 0
    for fn in F.functions(qname="dispenso::detail::CompletionEventImpl::wait"):
        loads = [a for a in atomic_ops(F, fn) if a.field == STATUS and a.op == "load"]
        param = fn.params[0]["vid"] if fn.params else None
        # (1) exit only when status == completedStatus
        exit_pos = Pos(fn.exit, 0)
        ok = False
        det = []
        for ld in loads:
            sid = ld.node["sid"]
            for op, other, side, b in guard_comparisons(fn, exit_pos, lambda x: isinstance(x, dict) and x.get("sid") == sid):
                det.append("exit guarded by load %s %s [%s]" % (op, expr_str(other), ld.success_order))
                o = strip_casts(other)
                if op == "==" and isinstance(o, dict) and o.get("k") == "var" and o.get("vid") == param and order_at_least(ld.success_order, "acquire"):
                    ok = True
        n += 1
        R.ob("C21.wait-exit", fn, fn.raw.get("loc"), ok, "; ".join(det) or "the exit is not guarded by a load of the status",
             sitekey="exit", why="wait() may return only after observing (acquire) the completed status")
        # (2) the futex compare value is the value loaded by the guarding loop test
        for pos, ev in fn.calls(FUTEX):
            a = ev.get("args", [])
            opv = const_val(a[1]) if len(a) > 1 else None
            if opv is None or (opv & 0x7f) != 0:
                continue
            n += 1
            cmpv = strip_casts(a[2])
            ok2 = False
            det2 = "compare value %s" % expr_str(cmpv)
            for atom, pol, b in fn.guard_atoms(pos):
                at = strip_casts(atom)
                if isinstance(at, dict) and at.get("k") == "bin" and at.get("op") in ("!=", "=="):
                    for side in (at.get("l"), at.get("r")):
                        v, tgt = unwrap_assign(side)
                        if tgt is not None and is_atomic_node(F, fn, v, STATUS, ("load",)) and same_value(tgt, cmpv):
                            # no other assignment to the variable between the test and the wait
                            ok2 = True
                            det2 += " = value loaded in the dominating loop test"
                        elif tgt is None and same_value(strip_casts(side), cmpv, fn) and \
                                is_atomic_node(F, fn, fn.expand_expr(strip_casts(side), use_block=b), STATUS, ("load",)):
                            # `const int cur = status.load(); if (cur == done) break; futex(.., cur, ..)`
                            ok2 = True
                            det2 += " = single-definition local holding the load tested by the dominating guard"
            R.ob("C21.wait-value", fn, ev, ok2, det2, sitekey="futex-wait",
                 why="FUTEX_WAIT must compare against the value the loop just observed, else a notify between "
                 "the load and the wait is missed")
    R.need("C21.wait-loop", n, 2, "exit guard and FUTEX_WAIT site in CompletionEventImpl::wait")

    # ---- Latch::wait / arrive_and_wait block correctly --------------------------------------------------
    # A latch waiter may return only after observing zero, and when it parks on the futex it must hand
    # the kernel the very value it tested: testing one load and parking on a second one loses the
    # wakeup of an arrival that lands between the two.
    n = 0
    LWAIT = "dispenso::detail::CompletionEventImpl::wait"
    WUC = "dispenso::detail::CompletionEventImpl::waitUntilChanged"
    for q in ("dispenso::Latch::wait", "dispenso::Latch::arrive_and_wait"):
        for fn in F.functions(qname=q):
            n += 1
            def blocking(p, e):
                return (is_call(e, LWAIT) and e.get("args") and const_val(e["args"][0]) == 0) or (q.endswith("arrive_and_wait") and is_call(e, "dispenso::Latch::wait"))
            def zero_seen(a):
                a = strip_casts(a)
                if isinstance(a, dict) and a.get("k") == "call" and a.get("name") == "try_wait":
                    return True
                return False
            removed = fn.edges_where(zero_seen, True)
            # the count was read as zero / this arrival was the last one
            for b, t in fn.branch_blocks():
                for i in (0, 1):
                    for a, pol, _ in fn.cond_atoms(t["cond"], i == 0, b):
                        c = comparison_of(a, pol, lambda x: is_atomic_node(F, fn, x, STATUS, ("load", "fetch_sub")))
                        if c and ((c[0] == "==" and const_val(c[1]) in (0, 1)) or (c[0] == "<=" and const_val(c[1]) in (0, 1)) or (c[0] == "<" and const_val(c[1]) in (1, 2))):
                            removed.add((b, i))
            path = fn.path_to_exit_avoiding(Pos(fn.entry, -1), blocking, removed_edges=removed)
            wucs = [(p, e) for p, e in fn.events() if is_call(e, WUC)]
            ok, det = path is None, "returns only through CompletionEventImpl::wait(0) or after observing the final arrival"
            if wucs:
                # parking on 'changed from v': v must be the value whose test sent us here
                for p, e in wucs:
                    v = strip_casts(fn.expand_expr(e["args"][0])) if e.get("args") else None
                    same = False
                    def is_v(x):
                        val, tgt = unwrap_assign(x)       # `(v = word.load()) != 0`
                        for y in (strip_casts(x), val, strip_casts(tgt) if tgt is not None else None):
                            if isinstance(y, dict) and isinstance(v, dict) and (y.get("sid") == v.get("sid") or (y.get("k") == "var" and v.get("k") == "var" and y.get("vid") == v.get("vid"))):
                                return True
                        return False
                    for a, pol, _ in fn.guard_atoms(p):
                        aa = strip_casts(a)
                        if isinstance(aa, dict) and aa.get("k") == "bin" and aa.get("op") in ("!=", "==", ">", ">=", "<", "<=") and (is_v(aa.get("l")) or is_v(aa.get("r"))):
                            same = True
                        elif is_v(aa):
                            same = True
                    if not same:
                        ok, det = False, "parks with waitUntilChanged(%s), a value loaded separately from the one that was tested: an arrival between the two loads is missed and the waiter sleeps forever" % expr_str(e["args"][0])
                    elif path is not None:
                        ok = True   # a test-and-park loop on one loaded value is a complete wait
            elif path is not None:
                det = "can return without blocking on the count and without having observed zero"
            R.ob("C21.latch-wait", fn, fn.loc, ok, det, sitekey=q.split("::")[-1], why="waits never return before the count reaches zero, and never miss the wakeup of the arrival that takes it there",
                 path=fn.describe_path(path) if (path and not ok) else None)
    R.need("C21.latch-wait", n, 2, "Latch::wait and Latch::arrive_and_wait")
