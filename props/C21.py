"""C21 — CompletionEvent and Latch waits never miss a wakeup.

Decided (structural, necessary conditions):
  C21.zero-detect   every CompletionEventImpl::notify() issued by a Latch method is guarded by a
                    comparison of the *result of the fetch_sub on the status word* with the *amount
                    subtracted* that is true exactly when this arrival took the count to zero
                    (prev == n, or prev <= n). The waiter is parked in the kernel and is woken only
                    by that arrival.
  C21.notify-wakes  in CompletionEventImpl::notify the store of the completed status is followed on
                    every path by futex(FUTEX_WAKE, INT_MAX) (wake *all* waiters).
  C21.wait-loop     in CompletionEventImpl::wait the function can only be left on the edge where an
                    acquire load of the status equals completedStatus, and the value given to the
                    kernel to compare is the value loaded in that same loop test.
"""
from lib.rules import (atomic_ops, comparison_of, guard_comparisons, is_atomic_node, lvalue_path,
                       field_name, same_value, unwrap_assign)
from lib.facts import Pos, const_val, expr_str, is_call, order_at_least, strip_casts, subexprs

LEVEL = "other"
EXPLANATION = __doc__
NOT_DECIDED = ["interleavings of waiters and notifiers", "kernel futex semantics", "non-Linux branches of completion_event_impl.h"]
STATUS = "dispenso::detail::CompletionEventImpl::status_"
NOTIFY = "dispenso::detail::CompletionEventImpl::notify"
FUTEX = "dispenso::detail::futex"


def run(R):
    F = R.F
    # ---- zero-detect -----------------------------------------------------------------------
    nsub = 0
    for fn in F.functions(cls="dispenso::Latch"):
        subs = [a for a in atomic_ops(F, fn) if a.field == STATUS and a.op == "fetch_sub"]
        if not subs:
            continue
        nsub += len(subs)
        notifies = fn.calls(NOTIFY)
        if not notifies:
            R.ob("C21.zero-detect", fn, subs[0].node, False,
                 "decrements the latch count but never calls notify(): a parked waiter is never woken",
                 sitekey="fetch_sub/no-notify", why="the arrival that reaches zero must wake the waiters")
            continue
        for pos, ev in notifies:
            ok = False
            seen = []
            for sub in subs:
                amount = sub.node["args"][0]
                sid = sub.node["sid"]
                for op, other, side, b in guard_comparisons(fn, pos, lambda x: isinstance(x, dict) and x.get("sid") == sid):
                    seen.append("prev %s %s (subtracted %s)" % (op, expr_str(other), expr_str(amount)))
                    if op in ("==", "<=") and same_value(other, amount, fn):
                        ok = True
            R.ob("C21.zero-detect", fn, ev, ok,
                 "notify guarded by: " + ("; ".join(seen) if seen else "no comparison of the fetch_sub result"),
                 sitekey="notify", why="the waiter is woken only by the arrival that takes the count to zero: "
                 "the value compared with the result of fetch_sub(a) must be a")
    R.need("C21.zero-detect", nsub, 2, "fetch_sub on the latch status word in Latch methods")

    # ---- notify = store then wake-all -----------------------------------------------------
    n = 0
    for fn in F.functions(qname=NOTIFY):
        stores = [a for a in atomic_ops(F, fn) if a.field == STATUS and a.op in ("store", "exchange")]
        for st in stores:
            n += 1
            def is_wake_all(p, ev):
                if not is_call(ev, FUTEX):
                    return False
                a = ev.get("args", [])
                opv = const_val(a[1]) if len(a) > 1 else None
                cnt = const_val(a[2]) if len(a) > 2 else None
                return opv is not None and (opv & 0x7f) == 1 and cnt is not None and cnt >= 0x7fffffff
            path = fn.path_to_exit_avoiding(st.pos, is_wake_all)
            R.ob("C21.notify-wakes", fn, st.node, path is None,
                 "every path from the status store to the exit passes futex(FUTEX_WAKE, INT_MAX)" if path is None
                 else "a path from the status store reaches the exit without waking all waiters",
                 sitekey="status-store", path=fn.describe_path(path) if path else None,
                 why="a waiter parked in FUTEX_WAIT is only released by a wake; the count must be 'all'")
            R.ob("C21.notify-order", fn, st.node, order_at_least(st.success_order, "release"),
                 "status store order %s" % st.success_order, sitekey="status-store",
                 why="the completed status publishes what preceded notify()")
    R.need("C21.notify-wakes", n, 1, "status store in CompletionEventImpl::notify")

    # ---- wait loop ----------------------------------------------------------------------------
    n = 0
    for fn in F.functions(qname="dispenso::detail::CompletionEventImpl::wait"):
        loads = [a for a in atomic_ops(F, fn) if a.field == STATUS and a.op == "load"]
        param = fn.params[0]["vid"] if fn.params else None
        # (1) exit only when status == completedStatus
        exit_pos = Pos(fn.exit, 0)
        ok = False
        det = []
        for ld in loads:
            sid = ld.node["sid"]
            for op, other, side, b in guard_comparisons(fn, exit_pos, lambda x: isinstance(x, dict) and x.get("sid") == sid):
                det.append("exit guarded by load %s %s [%s]" % (op, expr_str(other), ld.success_order))
                o = strip_casts(other)
                if op == "==" and isinstance(o, dict) and o.get("k") == "var" and o.get("vid") == param and order_at_least(ld.success_order, "acquire"):
                    ok = True
        n += 1
        R.ob("C21.wait-exit", fn, fn.raw.get("loc"), ok, "; ".join(det) or "the exit is not guarded by a load of the status",
             sitekey="exit", why="wait() may return only after observing (acquire) the completed status")
        # (2) the futex compare value is the value loaded by the guarding loop test
        for pos, ev in fn.calls(FUTEX):
            a = ev.get("args", [])
            opv = const_val(a[1]) if len(a) > 1 else None
            if opv is None or (opv & 0x7f) != 0:
                continue
            n += 1
            cmpv = strip_casts(a[2])
            ok2 = False
            det2 = "compare value %s" % expr_str(cmpv)
            for atom, pol, b in fn.guard_atoms(pos):
                at = strip_casts(atom)
                if isinstance(at, dict) and at.get("k") == "bin" and at.get("op") in ("!=", "=="):
                    for side in (at.get("l"), at.get("r")):
                        v, tgt = unwrap_assign(side)
                        if tgt is not None and is_atomic_node(F, fn, v, STATUS, ("load",)) and same_value(tgt, cmpv):
                            # no other assignment to the variable between the test and the wait
                            ok2 = True
                            det2 += " = value loaded in the dominating loop test"
            R.ob("C21.wait-value", fn, ev, ok2, det2, sitekey="futex-wait",
                 why="FUTEX_WAIT must compare against the value the loop just observed, else a notify between "
                 "the load and the wait is missed")
    R.need("C21.wait-loop", n, 2, "exit guard and FUTEX_WAIT site in CompletionEventImpl::wait")
