"""C19 — Future continuations and combinators respect readiness (handshake clause).

Decided on every CFG path:
  C19.push-recheck  addToThenChainOrExecute: after the compare-exchange loop that publishes the new
                    link, *every* path to the exit re-loads the status with acquire, and drains the
                    chain when it reads kReady (the completing side stores kReady and then drains:
                    store-then-drain vs push-then-recheck guarantees one of them sees the link).
  C19.ready-first   the completing side publishes kReady before it drains (shared with C18.publish);
                    the fast path of addToThenChainOrExecute schedules directly only under an
                    acquire load == kReady.
  C19.detach        tryExecuteThenChain walks a chain only after detaching it with a successful
                    compare-exchange to null; scheduleDestroyAndGetNext reads 'next' before it
                    frees the link and invokes before it frees.
  C19.wait-before-f the continuation wrapper calls copy.wait() before it invokes the user function.
  C19.fire-once     when_all fires its result only under count.fetch_sub(1) == 1; when_any only on a
                    successful compare-exchange from SIZE_MAX.
"""
import re
from lib.facts import Pos, const_val, expr_str, is_call, order_at_least, strip_casts, strip_move, subexprs
from lib.rules import atomic_ops, comparison_of, field_name, guard_comparisons, is_atomic_node, lvalue_path

LEVEL = "other"
EXPLANATION = __doc__
NOT_DECIDED = ["exactly-once of a continuation under all interleavings (needs the atomicity argument)", "input order of when_all results (a value property)"]
STATUS = "dispenso::detail::CompletionEventImpl::status_"
CHAIN = "dispenso::detail::FutureImplBase::thenChain_"
KREADY = 2
WHY = "a continuation must run exactly once and only after its antecedent is ready, whether added before, during or after completion"


def run(R):
    F = R.F
    n = 0
    for fn in F.functions(qname="dispenso::detail::FutureImplBase::addToThenChainOrExecute"):
        ops = atomic_ops(F, fn)
        cas = [a for a in ops if a.field == CHAIN and a.op.startswith("compare_exchange")]
        loads = [a for a in ops if a.field == STATUS and a.op == "load" and order_at_least(a.success_order, "acquire")]
        n += 1
        if not cas:
            R.ob("C19.push-recheck", fn, fn.loc, False, "no compare-exchange publishing the link", sitekey="push", why=WHY)
            continue
        after = [l for l in loads if fn.can_reach(cas[0].pos, l.pos)]
        load_pos = {l.pos for l in after}
        load_sids = {l.node["sid"] for l in after}
        def stop(p, e):
            return p in load_pos
        def stop_block(b):
            t = fn.term(b)
            return bool(t and t.get("cond") is not None and any(nn.get("sid") in load_sids for nn in subexprs(t["cond"])))
        # event-level: the load is a call event, so positions work
        path = fn.path_to_exit_avoiding(cas[0].pos, stop)
        ok = path is None and bool(after)
        det = "every path from the publishing CAS re-loads the status (acquire)" if ok else "a path from the publishing CAS reaches the exit without re-checking readiness: a link pushed just after the completer drained is never run"
        if ok:
            drains = [(p, e) for p, e in fn.events() if e.get("k") == "call" and e.get("name") == "tryExecuteThenChain" and fn.can_reach(cas[0].pos, p)]
            g = False
            for p, e in drains:
                for l in after:
                    for op, other, side, b in guard_comparisons(fn, p, lambda x, l=l: isinstance(x, dict) and x.get("sid") == l.node["sid"]):
                        if op == "==" and const_val(other) == KREADY:
                            g = True
            if not g:
                ok = False
                det = "the re-check does not drain the chain when it reads kReady"
        R.ob("C19.push-recheck", fn, cas[0].node, ok, det, sitekey="push", why=WHY, path=fn.describe_path(path) if path else None)
        # fast path
        n += 1
        direct = [(p, e) for p, e in fn.events() if e.get("k") == "call" and e.get("name") == "schedule" and not fn.can_reach(cas[0].pos, p)]
        ok2 = bool(direct)
        for p, e in direct:
            g = False
            for l in loads:
                for op, other, side, b in guard_comparisons(fn, p, lambda x, l=l: isinstance(x, dict) and x.get("sid") == l.node["sid"]):
                    if op == "==" and const_val(other) == KREADY:
                        g = True
            ok2 = ok2 and g
        R.ob("C19.ready-first", fn, direct[0][1] if direct else fn.loc, ok2, "direct scheduling only under an acquire load == kReady" if ok2 else "continuation can be scheduled before the antecedent is ready", sitekey="fast-path", why=WHY)
    for fn in F.functions(qname="dispenso::detail::FutureImplBase::run"):
        if not fn.params:
            continue
        nots = [(p, e) for p, e in fn.events() if is_call(e, "dispenso::detail::CompletionEventImpl::notify")]
        chain = [(p, e) for p, e in fn.events() if e.get("k") == "call" and e.get("name") == "tryExecuteThenChain"]
        n += 1
        ok = bool(nots) and bool(chain) and all(fn.dominates(nots[0][0], p) for p, _ in chain)
        R.ob("C19.ready-first", fn, fn.loc, ok, "notify(kReady) dominates the drain" if ok else "chain drained before kReady is published", sitekey="run", why=WHY)
    R.need("C19.push-recheck/ready-first", n, 3, "registration and completion sites")

    n = 0
    for fn in F.functions(qname="dispenso::detail::FutureImplBase::tryExecuteThenChain"):
        walks = [(p, e) for p, e in fn.events() if e.get("k") == "call" and e.get("name") == "scheduleDestroyAndGetNext"]
        n += 1
        ok = bool(walks)
        for p, e in walks:
            g = False
            for at, pol, b in fn.guard_atoms(p):
                a = strip_casts(at)
                if pol and is_atomic_node(F, fn, a, CHAIN, ("compare_exchange_weak", "compare_exchange_strong")) and a.get("args") and strip_casts(a["args"][1]).get("k") == "null":
                    g = True
            ok = ok and g
        R.ob("C19.detach", fn, walks[0][1] if walks else fn.loc, ok, "chain walked only after a successful CAS(head -> nullptr)" if ok else "chain walked without detaching it: two threads can dispatch the same links", sitekey="detach", why=WHY)
    for fn in F.functions(qname="dispenso::detail::FutureImplBase::ThenChain::scheduleDestroyAndGetNext"):
        n += 1
        inv = [(p, e) for p, e in fn.events() if e.get("k") == "call" and e.get("callee") is None]
        frees = [(p, e) for p, e in fn.events() if e.get("k") == "call" and (e.get("callee") or "").startswith("dispenso::deallocSmallBuffer")]
        nxt = [(p, e) for p, e in fn.all_nodes() if e.get("k") == "member" and e.get("fname") == "next"]
        ok = len(inv) == 1 and len(frees) == 1 and bool(nxt) and fn.dominates(inv[0][0], frees[0][0]) and all(fn.dominates(p, frees[0][0]) or p.b == frees[0][0].b and p.i <= frees[0][0].i for p, _ in nxt)
        # reading next after the free would be a use after free
        late = [p for p, _ in nxt if fn.can_reach(frees[0][0], p)] if frees else []
        ok = ok and not late
        R.ob("C19.detach", fn, frees[0][1] if frees else fn.loc, ok, "invoke, read next, then free the link" if ok else "link freed before it is invoked / before next is read", sitekey="link", why=WHY)
    R.need("C19.detach", n, 2, "chain dispatch functions")

    n = 0
    for fn in F.fns:
        if not (fn.is_lambda and fn.parent is not None and fn.parent.qname == "dispenso::detail::FutureBase::thenImpl"):
            continue
        ws = [(p, e) for p, e in fn.events() if e.get("k") == "call" and e.get("name") == "wait"]
        calls = [(p, e) for p, e in fn.events() if e.get("k") == "call" and e.get("opcall") == "()" and isinstance(strip_move(e.get("obj")), dict) and strip_move(e.get("obj")).get("name") == "f"]
        n += 1
        ok = bool(ws) and bool(calls) and all(fn.dominates(ws[0][0], p) for p, _ in calls)
        R.ob("C19.wait-before-f", fn, calls[0][1] if calls else fn.loc, ok, "copy.wait() dominates f(copy)" if ok else "user continuation can run before the antecedent is waited on", sitekey="wrapper", why=WHY)
    R.need("C19.wait-before-f", n, 3, "continuation wrappers (plain, TaskSet, ConcurrentTaskSet)")

    n = 0
    for fn in F.fns:
        if not fn.is_lambda or fn.parent is None:
            continue
        rootq = fn.root_parent().qname
        if not re.search(r"dispenso::detail::whenA(ll|ny)(Tuple|Iterators)$", rootq):
            continue
        fires = [(p, e) for p, e in fn.events() if e.get("k") == "call" and e.get("opcall") == "()" and isinstance(strip_casts(e.get("obj")), dict)
                 and strip_casts(e.get("obj")).get("k") == "member" and strip_casts(e.get("obj")).get("fname") == "f"]
        for p, e in fires:
            n += 1
            ok = False
            det = "fire not guarded"
            for a in atomic_ops(F, fn):
                sid = a.node["sid"]
                if a.op == "fetch_sub":
                    for op, other, side, b in guard_comparisons(fn, p, lambda x: isinstance(x, dict) and x.get("sid") == sid):
                        if op == "==" and const_val(other) == const_val(a.node["args"][0]):
                            ok, det = True, "fires only under count.fetch_sub(1) == 1"
                if a.op.startswith("compare_exchange"):
                    for at, pol, b in fn.guard_atoms(p):
                        if pol and isinstance(strip_casts(at), dict) and strip_casts(at).get("sid") == sid:
                            ok, det = True, "fires only on a successful compare-exchange of the winner slot"
            R.ob("C19.fire-once", fn, e, ok, det, sitekey="fire:" + rootq.split("::")[-1], why="the combined future must become ready once, when the last (all) / first (any) input completes")
    R.need("C19.fire-once", n, 4, "when_all / when_any completion callbacks")
