"""C42 — PoolAllocator hands out exclusive chunks within its slabs (lock + slab bookkeeping clauses).

Obligations (level 'proof' for the lock clause: together they imply that the free-list and slab
vectors are only ever touched by one thread at a time in PoolAllocatorT<true>):
  C42.lock.held / .released  K7 on backingAllocLock_ protecting chunks_, backingAllocs_,
                   backingAllocs2_ in alloc() and dealloc() of the thread-safe instantiation: every
                   access lies inside a region entered through fetch_or(1) == 0 and every path after
                   it releases with store(0, release).
  C42.slab-once    alloc(): a slab obtained from allocFunc_ or from the reuse list is pushed to
                   backingAllocs_ exactly once on that path, before it is carved.
  C42.clear-reuse  clear() moves every slab of backingAllocs_ to backingAllocs2_ (so allocFunc_ is not
                   called again while reusable slabs exist) and alloc() consults backingAllocs2_
                   before allocFunc_.
  C42.chunk-count  the constructor's chunksPerAlloc_, evaluated for slab sizes that are and are not
                   multiples of the chunk size, satisfies 1 <= n and n * chunkSize <= allocSize.
  C42.dtor-all     the destructor hands every element of both slab lists to deallocFunc_, once each.
"""
from lib import dataflow, lockregion
from lib.facts import Pos, const_val, expr_str, is_call, strip_casts, subexprs
from lib.rules import field_name, lvalue_path

LEVEL = "proof"
EXPLANATION = __doc__
NOT_DECIDED = ["chunk disjointness arithmetic (buffer += chunkSize_) beyond the chunk count per slab", "NoLockPoolAllocator used concurrently (outside its contract)"]
CLS = "dispenso::PoolAllocatorT"
LOCK = CLS + "::backingAllocLock_"
PROT = {CLS + "::chunks_", CLS + "::backingAllocs_", CLS + "::backingAllocs2_"}
WHY = "chunks_ and the slab lists are std::vectors shared by all threads of a PoolAllocator"


def fld(F, fn, e):
    return field_name(lvalue_path(F, fn, e))


def run(R):
    F = R.F
    n = 0
    for fn in F.functions(cls=CLS):
        if fn.qname.split("::")[-1] in ("alloc", "dealloc") and fn.raw.get("clsinst", "").endswith("<true>"):
            n += lockregion.analyse(F, fn, LOCK, PROT, R, "C42.lock", WHY)
    R.need("C42.lock", n, 6, "accesses to chunks_/backingAllocs_/backingAllocs2_ in PoolAllocatorT<true>::alloc/dealloc")

    ns = 0
    for fn in F.functions(qname=CLS + "::alloc"):
        ns += 1
        def is_src(p, e):
            if e.get("k") == "call" and e.get("opcall") == "()" and fld(F, fn, e.get("obj")) == CLS + "::allocFunc_":
                return True
            if e.get("k") == "call" and e.get("name") == "back" and fld(F, fn, e.get("obj")) == CLS + "::backingAllocs2_":
                return True
            return False
        def is_reg(p, e):
            return e.get("k") == "call" and e.get("name") == "push_back" and fld(F, fn, e.get("obj")) == CLS + "::backingAllocs_"
        def is_carve(p, e):
            return e.get("k") == "call" and e.get("name") == "push_back" and fld(F, fn, e.get("obj")) == CLS + "::chunks_"
        # state: (have_slab, registered)
        bad = []
        def transfer(pos, ev, st):
            have, reg = st
            if is_src(pos, ev):
                return (True, False)
            if is_reg(pos, ev):
                if reg:
                    raise dataflow.Violation("slab registered twice (it would be released twice)")
                return (have, True)
            if is_carve(pos, ev) and have and not reg:
                raise dataflow.Violation("slab carved into chunks before it is recorded in backingAllocs_")
            if ev.get("k") == "return" and have and not reg:
                raise dataflow.Violation("a new slab is handed out without being recorded (never released)")
            return st
        vios, stats = dataflow.run(fn, (False, False), transfer)
        R.ob("C42.slab-once", fn, fn.loc, not vios, "every path records a new slab exactly once before carving it" if not vios else vios[0]["msg"], sitekey="alloc:" + fn.raw.get("clsinst", "")[-7:], why="destruction releases exactly the slabs recorded in the two lists")
        # reuse list consulted before allocFunc_
        srcs = [(p, e) for p, e in fn.events() if e.get("k") == "call" and e.get("opcall") == "()" and fld(F, fn, e.get("obj")) == CLS + "::allocFunc_"]
        ok = bool(srcs)
        for p, e in srcs:
            g = False
            for at, pol, b in fn.guard_atoms(p):
                a = strip_casts(at)
                if isinstance(a, dict) and a.get("k") == "call" and a.get("name") == "empty" and fld(F, fn, a.get("obj")) == CLS + "::backingAllocs2_" and pol:
                    g = True
            ok = ok and g
        R.ob("C42.clear-reuse", fn, srcs[0][1] if srcs else fn.loc, ok, "allocFunc_ is called only when the reuse list is empty" if ok else "allocFunc_ called although reusable slabs may exist", sitekey="alloc-reuse:" + fn.raw.get("clsinst", "")[-7:], why="after clear() existing slabs are reused before new ones are requested")
    for fn in F.functions(qname=CLS + "::clear"):
        ns += 1
        moves = [(p, e) for p, e in fn.events() if e.get("k") == "call" and e.get("name") == "push_back" and fld(F, fn, e.get("obj")) == CLS + "::backingAllocs2_" and e.get("loop")]
        swaps = [(p, e) for p, e in fn.events() if is_call(e, "std::swap")]
        clr = [(p, e) for p, e in fn.events() if e.get("k") == "call" and e.get("name") == "clear" and fld(F, fn, e.get("obj")) == CLS + "::backingAllocs_"]
        ok = bool(moves) and bool(clr) and all(fn.can_reach(mp, cp) for mp, _ in moves for cp, _ in clr) and not any(fn.can_reach(cp, mp) for mp, _ in moves for cp, _ in clr)
        # ... on *every* path: the loop that moves the slabs must be passed on the way to the clear()
        # (a move that only happens on one side of a branch forgets the slabs on the other side)
        from lib.rules import natural_loops
        heads = [h for h, body, tails in natural_loops(fn) if any(mp.b in body for mp, _ in moves)]
        ok = ok and bool(heads) and all(any(fn.dominates(Pos(h, 0), cp) for h in heads) for cp, _ in clr)
        R.ob("C42.clear-reuse", fn, fn.loc, ok, "all slabs moved to the reuse list before backingAllocs_ is cleared" if ok else "clear() drops slabs without moving them to the reuse list (leak / double release)", sitekey="clear:" + fn.raw.get("clsinst", "")[-7:], why="clear() keeps the slabs for reuse")
    for fn in F.functions(qname=CLS + "::(dtor)"):
        ns += 1
        frees = [(p, e) for p, e in fn.events() if e.get("k") == "call" and e.get("opcall") == "()" and fld(F, fn, e.get("obj")) == CLS + "::deallocFunc_"]
        lists = set()
        for pos, node in fn.all_nodes():
            f = fld(F, fn, node) if node.get("k") == "member" else None
            if f in (CLS + "::backingAllocs_", CLS + "::backingAllocs2_"):
                lists.add(f)
        ok = len(frees) == 2 and len(lists) == 2 and all(e.get("loop") for _, e in frees) and frees[0][1].get("loop") != frees[1][1].get("loop")
        R.ob("C42.dtor-all", fn, fn.loc, ok, "both slab lists are released element-wise" if ok else "destructor does not release both slab lists exactly once", sitekey="dtor:" + fn.raw.get("clsinst", "")[-7:], why="every slab is returned with deallocFunc exactly once")
    R.need("C42.slabs", ns, 6, "alloc / clear / destructor instantiations")
    chunk_count_rule(R)


def chunk_count_rule(R):
    """C42.chunk-count: alloc() carves chunksPerAlloc_ chunks of chunkSize_ bytes out of every slab of
    allocSize_ bytes. The constructor's value for chunksPerAlloc_, evaluated for slab sizes that are and
    are not multiples of the chunk size, satisfies 1 <= n and n * chunkSize <= allocSize (a round-up
    division puts the last chunk past the end of the slab)."""
    from lib.rules import eval_int
    F = R.F
    n = 0
    for fn in F.functions(qname=CLS + "::(ctor)"):
        cs = [p for p in fn.params if p.get("name") == "chunkSize"]
        asz = [p for p in fn.params if p.get("name") == "allocSize"]
        if not cs or not asz:
            continue
        for pos, e in fn.events():
            if e.get("k") == "init" and e.get("fname") == "chunksPerAlloc_":
                n += 1
                bad, unknown = None, False
                for c, a in ((64, 256), (32, 128), (128, 128), (48, 256), (24, 100), (40, 4096), (7, 64)):
                    v = eval_int(fn, e.get("init"), lambda x, c=c, a=a: (c if x.get("vid") == cs[0]["vid"] else (a if x.get("vid") == asz[0]["vid"] else None)) if x.get("k") == "var" else None)
                    if v is None:
                        unknown = True
                    elif not (v >= 1 and v * c <= a) and bad is None:
                        bad = (c, a, v)
                if unknown and bad is None:
                    R.inconclusive("C42.chunk-count", "cannot evaluate the chunksPerAlloc_ initialiser %s" % expr_str(e.get("init")))
                    continue
                R.ob("C42.chunk-count", fn, e, bad is None, "chunksPerAlloc_ chunks fit into one slab for every (chunkSize, allocSize) tried" if bad is None else
                     "chunksPerAlloc_ = %s gives %d chunks of %d bytes for a slab of %d bytes: the last chunk extends %d bytes past the slab" % (expr_str(e.get("init")), bad[2], bad[0], bad[1], bad[2] * bad[0] - bad[1]),
                     sitekey="chunksPerAlloc:" + fn.raw.get("clsinst", "")[-7:], why="every chunk handed out lies within a slab obtained from allocFunc")
    R.need("C42.chunk-count", n, 2, "PoolAllocatorT constructors")
