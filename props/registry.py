"""Which properties are claimed, at which level, by which method; and which are not applicable.
tools/gen_manifest.py turns this into MANIFEST.json (kept valid at all times)."""

NA = {
    "C06": "liveness over all acyclic programs and schedules; no structural clause is a necessary condition (DESIGN.md section 4, C06)",
    "C17": "universally quantified integer identity (sum/spread of chunk sizes); needs a solver or proof, not a code shape",
    "C30": "correctness of a graph algorithm over all DAGs and edit sequences; no necessary structural clause beyond memory orders covered in C10",
    "C31": "closure computation over all graphs and marked subsets; not a code shape",
    "C33": "exactness rests on index arithmetic plus interleavings; publication orders are covered in C10's table",
    "C43": "set algebra, parser and grouping heuristic over all inputs; the only structural clause is not necessary on this platform",
    "C44": "bit-vector identities for all inputs: bit-blasting/SMT territory (another technique family)",
}

# property id -> dict(technique, level_text, level_note, design_ref)
CLAIMED = {
    "C21": dict(
        technique="guard-dominance + must-pass-through over clang CFG (custom libTooling extractor + python rules)",
        text="Decides three necessary structural clauses of the wake-up protocol on every path of Latch::count_down/arrive_and_wait and "
             "CompletionEventImpl::notify/wait: zero-detection compares the fetch_sub result with the subtracted amount; notify stores then "
             "wakes all on every path; wait leaves only on an acquire observation of the completed status and hands the kernel the value just "
             "loaded. Holds for all schedules because it is a property of every CFG path, not of sampled runs. Does not decide interleavings.",
        note="trusts the clang 14 front end/CFG, kernel futex semantics, and that only the Linux branch is compiled",
    ),
}
