"""Which properties are claimed, at which level, by which method; and which are not applicable.
tools/gen_manifest.py turns this into MANIFEST.json (kept valid at all times)."""

NA = {
    "C06": "liveness over all acyclic programs and schedules; no structural clause is a necessary condition (DESIGN.md section 4, C06)",
    "C17": "universally quantified integer identity (sum/spread of chunk sizes); needs a solver or proof, not a code shape",
    "C30": "correctness of a graph algorithm over all DAGs and edit sequences; no necessary structural clause beyond memory orders covered in C10",
    "C31": "closure computation over all graphs and marked subsets; not a code shape",
    "C33": "exactness rests on index arithmetic plus interleavings; publication orders are covered in C10's table",
    "C43": "set algebra, parser and grouping heuristic over all inputs; the only structural clause is not necessary on this platform",
    "C44": "bit-vector identities for all inputs: bit-blasting/SMT territory (another technique family)",
}

# property id -> dict(technique, level_text, level_note, design_ref)
CLAIMED = {
    "C21": dict(
        technique="guard-dominance + must-pass-through over clang CFG (custom libTooling extractor + python rules)",
        text="Decides three necessary structural clauses of the wake-up protocol on every path of Latch::count_down/arrive_and_wait and "
             "CompletionEventImpl::notify/wait: zero-detection compares the fetch_sub result with the subtracted amount; notify stores then "
             "wakes all on every path; wait leaves only on an acquire observation of the completed status and hands the kernel the value just "
             "loaded. Holds for all schedules because it is a property of every CFG path, not of sampled runs. Does not decide interleavings.",
        note="trusts the clang 14 front end/CFG, kernel futex semantics, and that only the Linux branch is compiled",
    ),
    "C01": dict(
        technique="ownership typestate (path-sensitive, finite-state) + dominance/reachability rules over clang CFGs of all ThreadPool functions",
        text="Decides the ownership clause of exactly-once delivery on every CFG path: each OnceFunction / entry-point functor is run inline once or handed "
             "to exactly one sink; failed try_push falls back; every popped task is run; enqueue failure is not dropped; bulk index advances by what was "
             "handed on; the destructor drains every tier after the joins and to a fixpoint. All paths means all schedules for these local shapes. "
             "Does not decide delivery inside the queues or interleavings.",
        note="trusts clang CFG construction, moodycamel::ConcurrentQueue and MpmcRingBuffer (C34) delivery",
    ),
    "C04": dict(
        technique="guard-dominance (branch-edge deletion) per loop iteration + who-may-write rule over clang CFGs",
        text="Every site that starts a user body in task-set scheduling code and packaged tasks is dominated, in the same loop iteration, by a read of the "
             "cancel flag that was false; the flag is written only by cancel()/captured exception/cascade constructor; cancel() cascades to children under "
             "the list mutex; the cascade constructor registers before sampling the parent. Holds for all schedules because it is a property of every path.",
        note="does not decide the value wait() returns; bodies that already passed their check may still run (as the property allows)",
    ),
    "C08": dict(
        technique="must-pass-through pairing + finite-state balance analysis of the worker loop's batch counter over clang CFGs",
        text="Every run of a dequeued task in a ThreadPool method is paired with its workRemaining_ decrement on every path (executeNext, or the worker "
             "loop's batch counter whose {none,pending,flushed} states are explored exhaustively); every hand-over to a queue tier is dominated by the "
             "matching increment; the bulk failure path undoes its increment. The destructor is exempt (the counter dies with the pool).",
        note="decides pairing, not the numeric value at quiescence",
    ),
    "C45": dict(
        category="proof",
        technique="who-may-write + guard-dominance + resolved-declaration facts (thread-local vs namespace-scope atomic) from the clang AST",
        text="Four structural obligations that together imply the property up to 2^64 first calls: the returned value is read from a thread-local cache; "
             "every write to that cache in the program is in threadId() under the 'still unassigned' test; the written value is fetch_add(k>=1) on a "
             "non-thread-local std::atomic; nothing else modifies that counter.",
        note="assumes fewer than 2^64 - 1 first calls; trusts std::atomic RMW atomicity",
    ),
    "C27": dict(
        technique="ownership typestate + balance/must-pass rules + loop-exit guards + interval lower bound over clang CFGs of the pipeline implementation",
        text="Decides the hand-off clauses on every path: each dequeued item is scheduled, run or discarded exactly once; outstanding_ covers an item from "
             "before its hand-off to its guard's destructor (or its discard); a resource slot is held for exactly one stage invocation; item lambdas call "
             "stage, completion callback (exactly once) and next stage (at most once, only for engaged results) in that order; wait() leaves only at zero "
             "outstanding or on a captured exception; runner counts are >= 1.",
        note="does not decide the enqueue/empty-queue race itself nor delivery inside moodycamel queues and the task set",
    ),
    "C02": dict(
        technique="dominance / must-pass-through / guard rules over clang CFGs (counter increments vs hand-offs, decrements vs bodies, wait exits)",
        text="Decides the accounting clause on every path: work is counted before it is handed to the pool (same count, same iteration; futures and "
             "continuations tied to a set included), each packaged wrapper decrements exactly once after the body even when it throws (release), a "
             "future publishes readiness before it uncounts itself, wait() returns only on an acquire observation of zero, tryWait() returns true only "
             "then, destructors wait.",
        note="does not decide that the pool runs each queued task (C01) nor interleavings",
    ),
    "C05": dict(
        technique="lexical try/catch structure + guard-dominance over clang CFGs of the exception state machine",
        text="Every body invocation in packaged wrappers and invokeInline sits in try/catch(...) whose catch-all records the exception; the exception "
             "slot is written only by the CAS winner and published by a release store; it is read only under an acquire observation of kSet and the guard "
             "is reset before rethrow; wait/tryWait consult exceptions only after observing completion.",
        note="EH edges are not in clang's CFG: throwing paths are reasoned about through the lexical handler structure",
    ),
    "C29": dict(
        technique="ownership typestate with disposer summaries + lexical try/catch + per-iteration guard rules over clang CFGs",
        text="A OnceFunction payload of a packaged task or of a schedule() entry point is consumed on every path including the cancelled/skipped one "
             "(disposer summaries are computed, not named); wait() cleans up every discarded item; runner loops re-check hasException() each iteration; "
             "stage invocations are covered by a catch-all that records the exception.",
        note="memory held inside moodycamel queues and which exception is rethrown (C05) are not decided here",
    ),
    "C09": dict(
        technique="ordering/reachability + loop-iteration must-pass + def-use rules over clang CFGs of the shutdown handshake",
        text="stop() precedes wakeAll() precedes join in the destructor and resizeLocked; wakeAll bumps every group's epoch in every iteration (also for "
             "groups without sleepers); the worker never refreshes the epoch it will wait on between its running() test and the wait; the futex "
             "compares against the just-loaded epoch; running_/epoch orders. These are the necessary conditions of the no-backstop handshake.",
        note="does not decide the interleaving argument itself nor kernel progress",
    ),
    "C18": dict(
        technique="who-may-call + guard-dominance on the status CAS + path counting (finite-state) over clang CFGs of all Future instantiations",
        text="runFunc is reachable only through the kNotStarted->kRunning CAS winner; result published (notify kReady) before the chain/counter; wait() "
             "returns only after an acquire kReady observation or the blocking wait(kReady); get() reads after wait(); constructors schedule the run "
             "exactly once on every path; reference counting sites release/add exactly once and dealloc only on the last reference.",
        note="atomicity of the CAS is the language's; value equality of results is not decided",
    ),
    "C19": dict(
        technique="must-pass-through (push-then-recheck), guard-dominance and ordering rules over clang CFGs",
        text="After publishing a link every path re-loads the status with acquire and drains on kReady; the completer publishes kReady before draining; a "
             "chain is walked only after a successful detach CAS; links are invoked and their next pointer read before they are freed; wrappers wait on "
             "the antecedent before calling the user function; when_all/when_any fire under fetch_sub==1 / winning CAS only.",
        note="exactly-once under all interleavings needs the atomicity argument, which is not decided statically here",
    ),
    "C24": dict(
        technique="guard-dominance on compare-exchange success edges + must-pass-through release store, over clang CFGs of AsyncRequest<T>",
        text="Every access to the payload is dominated by a winning compare-exchange on the state word (a plain load grants nothing with several "
             "consumers/producers) and followed on every path by the release hand-back; each operation claims only the state it is entitled to.",
        note="linearizability of histories and 'latest value' are not decided",
    ),
    "C37": dict(
        technique="sibling loop-bound rule (count vs capacity) + ordering rules + member-coverage of swap over clang CFGs",
        text="Loops over the buffer-pointer array are bounded by the count buffersPos_; grow_by allocates under the mutex, publishes the buffer before "
             "enlarging allocatedSize_ (release) and constructs only after the reserving CAS; allocateBuffer writes the count slot and release-publishes "
             "a replacement array; swap exchanges all nine state members.",
        note="range disjointness under concurrency needs the CAS atomicity argument (not decided); content equality is a value property",
    ),
    "C40": dict(
        technique="finite-state storage-balance analysis (engaged/empty per object, all paths) over clang CFGs of OpResult<T>",
        text="ptr_ of either operand is overwritten (nulled or re-pointed by placement new) only where that object is known empty or its contained "
             "object's destructor has just run; the destructor destroys whenever engaged. Explored exhaustively over (block,state) pairs for each "
             "constructor/assignment/emplace/reset instantiation.",
        note="value equality with std::optional is not decided",
    ),
    "C41": dict(
        technique="lock-region analysis (tested acquire forms incl. CAS-retry validity, release on all paths) + index-bound guards over clang CFGs",
        text="Every access to backingStore lies in a region entered through a valid tested acquire of backingStoreLock (a compare-exchange retry must "
             "re-initialise its expected operand) and the lock is released on every path; the thread-local cache index stays within its array; thread "
             "exit returns cached blocks.",
        note="exclusivity across the moodycamel central store is trusted",
    ),
    "C42": dict(
        category="proof",
        technique="lock-region analysis + finite-state slab bookkeeping analysis over clang CFGs of PoolAllocatorT<true/false>",
        text="Obligations implying single-threaded access to the free list and slab lists of the thread-safe allocator: every access inside "
             "fetch_or(1)==0 ... store(0,release) on all paths; a new slab is recorded exactly once before carving; clear() moves all slabs to the reuse "
             "list and alloc() consults it first; the destructor releases both lists element-wise.",
        note="chunk disjointness arithmetic is not decided; std::vector and the user-supplied alloc/dealloc functions are trusted",
    ),
    "C10": dict(
        technique="memory-order lattice check over a hand-confirmed happens-before edge table (resolved atomic fields through accessors/aliases), fence "
                  "must-pass rule, and TSAN-annotation backing rule on a second parse with the annotation macros expanded",
        text="Not a race detector: decides that each of ~50 publication edges the algorithms need (task-set counter, ring slot sequence numbers, SPSC "
             "cursors, Chase-Lev bottom/top + fences, completion events, future refcount and then-chain, RW lock word, arena/vector buffer publication, "
             "spin locks, TimedTask handshake, pipeline counters) still has the orders that make it an edge; weakening one is a race in the C++ model, "
             "strengthening never fires. TSAN annotations must be backed by a declared order; IGNORE regions are paired on all paths.",
        note="absence of races outside the table is not decided; the table is confirmed by reading (DESIGN.md appendix A); consumeLoad is a known finding",
    ),
    "C16": dict(
        technique="ownership typestate (path-sensitive) of functor parameters over clang CFGs of parallel_invoke and the task-set entry points",
        text="Each functor of parallel_invoke is forwarded exactly once (first to schedule, rest to the recursion; base case invoked on the caller); every "
             "task-set scheduling entry point runs its functor inline once or hands it to the pool once on every path, never both.",
        note="delivery by the pool (C01) is a separate clause; 'finished once wait() returns' is decided as the wait-zero clause shared with C02 "
             "(wait returns only on an acquire observation of a zero counter)",
    ),
    "C12": dict(
        technique="flag-conditioned must-pass-through (wait => task-set wait) over clang CFGs + compile-time width witnesses read from the AST",
        text="Decides two clauses only: on every path with wait = true parallel_for and each dispatcher wait on the task set before returning (global "
             "overloads force wait); and the adaptive claim cursor, advanced unconditionally on failing claims, is strictly wider than the index type "
             "for all 8 index types or guarded (64-bit types are a recorded known finding). Exact partition of the range is NOT decided.",
        note="index-coverage arithmetic for all inputs needs a solver/proof (other family)",
    ),
    "C13": dict(
        technique="targeted congruence evaluation (multiple-of-g / start-relative / definitely-not / unknown) of boundary and stride expressions over the AST/CFG",
        text="Trimmed end = end - size%g; the adaptive chunk size is a multiple of g for every g (bit-mask round-ups are classified definitely-not); "
             "static ceil/small chunk sizes and mapper starts/ends are start-relative multiples; interior stripe boundaries are start + multiple "
             "(absolute alignDown is not). Unknown constructs are inconclusive (exit 2), never violations.",
        note="sizes as numbers and exact coverage are not decided",
    ),
    "C14": dict(
        technique="index-correspondence (same resolved variable selects state and chunk) + guard-dominance of caller-side tail invocations over clang CFGs",
        text="Every body invocation takes its state by the same index that selects its chunk (static) or by generator index < count with the caller at "
             "index == count (dynamic/adaptive); caller-side uses of states.begin() happen before any scheduling or after the waiting dispatch "
             "(options.wait) / in the last worker's exit action; initStates precedes every use with count >= 1.",
        note="interleavings are not explored; distinct indices are assumed to address distinct elements of the user's container",
    ),
    "C15": dict(
        technique="interval lower-bound evaluation through reaching definitions and guards + flag-conditioned must-pass-through over clang CFGs",
        text="The chunk count handed to staticChunkSize in for_each_n has lower bound 1 on every path (so no division by zero on zero-thread pools); both "
             "for_each_n_schedule overloads and the serial path wait on the task set on every wait = true path; global overloads force wait; the "
             "scheduled count matches the caller's share.",
        note="per-element count for all n is chunk arithmetic (C17, not applicable)",
    ),
    "C48": dict(
        technique="symbolic upper-bound discipline (cap only lowered: min(cap,..) / guarded) + structural launch-count and serial-gate rules over clang CFGs",
        text="The thread cap is initialised below maxThreads and every later assignment only lowers it; launched tasks = cap minus the participating "
             "caller; parallel dispatch requires maxThreads >= 2; the caller adds no body invocation on top of maxThreads running ones.",
        note="run-time peak concurrency and work stolen by waiting callers are not decided",
    ),
    "C20": dict(
        technique="guard-dominance / disjunctive edge-removal reachability over clang CFGs of the timed waits",
        text="waitFor/waitUntil return true only under an acquire load == completedStatus and false only for a non-positive timeout or errno == ETIMEDOUT "
             "(EAGAIN/EINTR must re-check); Future timed waits report ready only after a positive wait result and pass their own allowInline_ flag.",
        note="elapsed time itself is kernel behaviour and is not decided",
    ),
    "C22": dict(
        technique="finite-state protocol analysis (reader count held/validated/released; writer bit ours/theirs) over clang CFGs of RWLockImpl",
        text="Every reader-count increment is validated against the writer bit using the result of that very increment, or released, before the function "
             "returns; try_lock clears the writer bit on failure iff it set it and succeeds only after seeing no readers; decrement/clear/wake/drain "
             "constants and sites are as the protocol requires.",
        note="mutual exclusion and progress under interleavings are model-checking territory and are not decided",
    ),
    "C23": dict(
        technique="ordering/loop-bound rules on the two-phase writer protocol + the RWLockImpl slot protocol analysis shared with C22",
        text="Writers claim all N writer bits before draining any slot, both over 0..N; try_lock's failure at slot i unlocks exactly [0,i) and returns "
             "false; unlock covers all slots; readers mask their index; and each slot obeys the RWLockImpl reader-entry/writer/release rules.",
        note="as C22",
    ),
    "C26": dict(
        technique="dominance/ordering rules (announce-then-check vs cancel-then-wait) + constant-mask and gate comparisons over clang CFGs",
        text="kickOffTask announces (RAII inProgress++) before it checks the cancelled flag (seq_cst) and before it touches func; the destructor skips the "
             "teardown only for detached tasks, otherwise cancel -> drain inProgress -> clear func; func runs only while runs remain and is re-queued "
             "only when more remain; a false return stops further runs.",
        note="clock-related clauses are not decided",
    ),
    "C46": dict(
        technique="site enumeration + guard-dominance (canInlineSchedule) + live RAII guard check over clang CFGs, with a reasoned exemption list",
        text="Every inline-execution site in dispenso's scheduling/completion paths is dominated by canInlineSchedule() and a live InlineDepthGuard, or is "
             "exempt for a stated reason; Future::wait running an unstarted future inline has no limit and is a recorded known finding.",
        note="bytes of stack and user-level recursion are not decided",
    ),
    "C11": dict(
        technique="must-pass/ordering rules on type-erased callables, ownership typestate on skip paths, template-argument pairing of small-buffer "
                  "alloc/free, and guarded-index rule on a frozen table of fixed-size arrays (clang AST/CFG)",
        text="Four named clauses: callables are run (if requested) then destroyed on every path and spills freed with their own size class; a "
             "OnceFunction that will not run is still disposed of (packaged skip path, entry points, pipeline discard paths); every deallocSmallBuffer<J> "
             "matches its allocSmallBuffer<K>; writes into the tabled fixed-size arrays are bounded in the NDEBUG configuration (g_taskStack is a recorded "
             "known finding).",
        note="everything else a sanitizer could observe is not decided",
    ),
    "C32": dict(
        technique="per-path balance of size decrements vs destructor calls (finite-state), destroy-loop shape rule, and no-placement-new-over-live-element rule (clang CFG)",
        text="Lifetime clause only: operations that lower size_ destroy what they vacate (erase single/range, pop_back, resize, clear); insert assigns "
             "into the live element left by insertPartial instead of constructing over it; insertPartial constructs before move_backward.",
        note="equality of contents/positions with std::vector is a value property and is not decided",
    ),
    "C34": dict(
        technique="guard-dominance (acquire(seq)==ticket and winning cursor CAS) + must-pass-through release store + per-path destroy counting over clang CFGs",
        text="Every construct/move-out/destroy of a slot element happens after the acquire check of the slot's sequence number and the successful "
             "compare-exchange that claims the ticket, and is followed on every path by the release store that hands the slot on; pops destroy once; "
             "the destructor destroys [head, tail).",
        note="FIFO order, linearizability and the capacity bound are not decided",
    ),
    "C35": dict(
        technique="dominance of slot accesses by the acquire load of the other side's cursor + must-pass-through release store of the own cursor (clang CFG)",
        text="Producer forms construct only after acquire(head_) and publish by release store of tail_ on every path; consumer forms consume only after "
             "acquire(tail_), destroy once, and free the slot by release store of head_; neither side writes the other's cursor; destructor destroys the rest.",
        note="FIFO order is not decided; of the capacity arithmetic only the batch counts are (evaluated for every cursor pair of every instantiated slot "
             "count, powers of two and not); the destructor's drain must walk head != tail",
    ),
    "C36": dict(
        technique="fence must-pass rule, CAS-order/result-use rule, who-may-write rule on the two cursors (clang CFG)",
        text="seq_cst fences separate the cursor accesses in pop and steal on every path; the last-element race and every steal are decided by a seq_cst "
             "CAS t -> t+1 whose result is used; push publishes with release after writing the slot, steals acquire bottom_; bottom_ is written only by "
             "owner operations, top_ only by CAS; an empty pop restores bottom_; steals read the slot before claiming it.",
        note="the Chase-Lev correctness argument itself (all interleavings) is not decided",
    ),
    "C38": dict(
        technique="type witness read from the type-checked AST (alignof(T), resolved allocation overload) + lifetime ordering/balance rules (clang CFG)",
        text="For each instantiated growToHeap the heap allocation must be an aligned form when alignof(T) exceeds the default new alignment (the "
             "over-aligned witness fails today: recorded known finding); growToHeap moves then destroys each element and frees the old heap block only when "
             "one is owned; pop_back/erase balance decrements and destructors; destroyAll destroys all and frees iff heap.",
        note="equality of contents with std::vector is not decided",
    ),
    "C47": dict(
        technique="call-graph reachability over resolved callees from every ForceQueuingTag entry point, with one guarded exemption (clang AST/CFG)",
        text="No function reachable from an FQ entry point invokes a functor/task on the calling thread, except forceEnqueue's inline call under "
             "numThreads_ == 0; FQ entry points never call an untagged scheduling function of the same family.",
        note="that the queued task eventually runs is C01",
    ),
    "C03": dict(
        technique="monotone-bound rule on the scanned ring count + ordering/reachability rules + ownership typestate on the drains (clang CFG of resizeLocked)",
        text="The ring count that waiters scan never shrinks (store of rings_.size() or max with the old value), so rings a stale producer can still "
             "target remain covered; resize stops, wakes, joins, drains both arenas completely, constructs new rings before publishing the count, and "
             "publishes counts and wake state before starting workers; every drained task runs exactly once.",
        note="schedule-dependent behaviour beyond the stranded-ring window is not decided",
    ),
    "C07": dict(
        technique="must-pass-through with branch conditions folded by concrete evaluation over a finite family of precondition instances (parked pool), "
                  "def-use rule on the wake count, constant agreement read from the AST",
        text="Under the property's precondition (all N workers parked, S tasks submitted; N in {1,2,8,9,64}) every hand-over to a queue/ring is followed "
             "by a wake on all feasible paths; the count handed to a group futex wake is the population of the full sleep mask; threads-per-steal-ring "
             "equals threads-per-wake-group. Unevaluable conditions are inconclusive (exit 2).",
        note="latency itself and the worker-side enter-sleep race are not decided. Also decided: the idle count is seeded with the number of threads started, "
             "the claim result is tested as 'negative = nobody', and a claim of one sleeper must be delivered to it -- the last one is violated by "
             "PoolWakeState::claimAndWakeOne (KNOWN-FINDING, reproduced by triage/probe_c07_ghost_sleeper.cpp)",
    ),
    "C25": dict(
        technique="finite-state storage-balance analysis of the handle pointer + who-may-construct + loop-bound rules (clang CFG)",
        text="A Resource handle's pointer is overwritten only when empty or after recycle(); moves null the source on every path; the destructor "
             "recycles; only acquire() mints handles, one dequeue each; the pool constructs/enqueues exactly size objects and its destructor dequeues and "
             "destroys exactly size_ before freeing the store.",
        note="the blocking bound is moodycamel's semaphore (trusted)",
    ),
    "C28": dict(
        technique="slot-accounting must-pass rules (shared with C27) + interval lower bound of StageLimits + structural upper bound of runner counts",
        text="A resource slot is held for exactly one stage invocation on every path; slot counters start at StageLimits::limit (1 for plain functions, "
             "max(1, limit) otherwise); serial/unlimited flags derive from it; generator/single-stage runner counts are bounded by the limit.",
        note="peak concurrency as a measured number is not decided",
    ),
    "C39": dict(
        technique="type witnesses read from instantiated AST (sizeof/alignof of a callable family, chosen storage variant, size-class template arguments, "
                  "constexpr ordinals) + invoke/move structural rules",
        text="For 12 callables (1..512 bytes, align 1..256) the inline variant is chosen only when the callable fits the inline buffer and alignment, "
             "spills use a size class >= size that is a multiple of the alignment, and everything that does not fit spills; size classes map to the "
             "allocator of that class whose slabs are K-aligned and carved in K steps; operator() runs+destroys, cleanupNotRun only destroys; moves "
             "copy the whole object.",
        note="misuse (calling twice) and self-referential callables are outside the contract",
    ),
}
