"""C15 — for_each applies the function once per element (chunk-count and completion clauses).

Decided:
  C15.chunks-ge-1  the number of chunks handed to staticChunkSize in for_each_n has lower bound 1 on
                   every path (interval evaluation through std::min/std::max, the 'n != 0' guard, and
                   the zero-thread pool case), so the chunk arithmetic never divides by zero.
  C15.completion   both for_each_n_schedule overloads (random access and generic iterators) and the
                   serial path of for_each_n wait on the task set on every path on which options.wait
                   is true; the global-pool overloads force wait = true.
  C15.caller-chunk with wait the caller runs the last chunk (index numThreads-1) and exactly the other
                   numThreads-1 are scheduled; without wait all numThreads are scheduled.
  C15.task-captures the chunk task lambdas returned by the scheduleBulk generators capture nothing by
                   reference (with wait = false they outlive for_each_n and the caller's functor).
"""
import re
from lib.facts import Pos, const_val, expr_str, is_call, strip_casts, subexprs
from lib.lockregion import reaching_def
from lib.rules import lower_bound, path_without_wait, same_value

LEVEL = "other"
EXPLANATION = __doc__
DRIVERS = ["parfor.cpp", "umbrella.cpp"]
NOT_DECIDED = ["the per-element count for all n (chunk arithmetic: C17)", "that scheduled chunks run (C01/C02)"]
WHY = "every element must be visited and all applications finished when the call (wait=true) returns"


def lb_at(F, fn, e, pos, env, depth=14):
    """lower bound of e evaluated at pos: locals are resolved through their reaching definition."""
    e0 = strip_casts(e)
    if depth <= 0 or not isinstance(e0, dict):
        return None
    if e0.get("k") == "var" and e0.get("vid") in env:
        return env[e0["vid"]]
    if e0.get("k") == "var" and e0.get("vk") == "local":
        rd = reaching_def(fn, e0["vid"], pos)
        if rd is not None and rd[1] is not None and rd[2] in ("decl", "="):
            return lb_at(F, fn, rd[1], rd[0], env, depth - 1)
    if e0.get("k") == "call" and e0.get("callee") in ("std::min", "std::max"):
        lbs = [lb_at(F, fn, a, pos, env, depth - 1) for a in e0.get("args", [])]
        if e0["callee"] == "std::max":
            known = [x for x in lbs if x is not None]
            return max(known) if known else None
        return None if any(x is None for x in lbs) else min(lbs)
    if e0.get("k") == "bin" and e0.get("op") == "+":
        a, b = lb_at(F, fn, e0.get("l"), pos, env, depth - 1), lb_at(F, fn, e0.get("r"), pos, env, depth - 1)
        return None if a is None or b is None else a + b
    return lower_bound(F, fn, e, env)


def run(R):
    F = R.F
    is_flag = lambda a: isinstance(a, dict) and a.get("k") == "member" and a.get("fname") == "wait"
    def is_ts_wait(p, e):
        return e.get("k") == "call" and e.get("name") == "wait" and "TaskSet" in (e.get("cls") or "")
    n = 0
    for fn in F.functions(qname="dispenso::for_each_n"):
        if not any(p["name"] == "tasks" for p in fn.params):
            continue
        for pos, ev in fn.events():
            if is_call(ev, "dispenso::detail::staticChunkSize") and len(ev.get("args", [])) > 1:
                n += 1
                env = {}
                for at, pol, b in fn.guard_atoms(pos):
                    a = strip_casts(at)
                    if isinstance(a, dict) and a.get("k") == "var" and pol and ("size_t" in a.get("type", "") or "unsigned" in a.get("type", "")):
                        env[a["vid"]] = 1
                lb = lb_at(F, fn, ev["args"][1], pos, env)
                if lb is None:
                    R.inconclusive("C15.chunks-ge-1", "cannot bound %s" % expr_str(ev["args"][1]))
                else:
                    R.ob("C15.chunks-ge-1", fn, ev, lb >= 1, "chunks argument %s has lower bound %d" % (expr_str(ev["args"][1]), lb), sitekey="staticChunkSize", why="staticChunkSize divides by the chunk count; a zero-thread pool without wait must still produce one chunk")
    R.need("C15.chunks-ge-1", n, 1, "staticChunkSize call in for_each_n")

    n = 0
    for fn in F.fns:
        if fn.qname == "dispenso::detail::for_each_n_schedule" or (fn.qname == "dispenso::for_each_n" and any(p["name"] == "tasks" for p in fn.params)):
            n += 1
            def waited(p, e):
                return is_ts_wait(p, e) or is_call(e, "dispenso::detail::for_each_n_schedule")
            path, removed = path_without_wait(fn, is_flag, waited)
            cat = fn.raw.get("display", "")
            kind = "random-access" if "random_access_iterator_tag" in " ".join(p.get("type", "") for p in fn.params) else ("generic-iterator" if fn.qname.endswith("schedule") else "for_each_n")
            R.ob("C15.completion", fn, fn.loc, path is None and bool(removed), "every wait = true path waits on the task set" if path is None else "a wait = true path returns while scheduled chunks may still be running",
                 sitekey=kind, why=WHY, path=fn.describe_path(path) if path else None)
    for fn in F.functions(qname="dispenso::for_each_n"):
        if any(p["name"] == "tasks" for p in fn.params):
            continue
        n += 1
        sets = [(p, e) for p, e in fn.events() if e.get("k") == "bin" and e.get("op") == "=" and isinstance(strip_casts(e.get("l")), dict) and strip_casts(e.get("l")).get("fname") == "wait" and const_val(e.get("r")) == 1]
        calls = [(p, e) for p, e in fn.events() if is_call(e, "dispenso::for_each_n")]
        ok = bool(sets) and bool(calls) and all(fn.dominates(sets[0][0], p) for p, _ in calls)
        R.ob("C15.completion", fn, fn.loc, ok, "options.wait = true before delegating" if ok else "global-pool overload does not force wait", sitekey="global-overload", why=WHY)
    R.need("C15.completion", n, 4, "for_each completion sites")

    n = 0
    from lib import dataflow
    from lib.rules import flag_false_edges, flag_true_edges
    for fn in F.functions(qname="dispenso::detail::for_each_n_schedule"):
        # the count handed to scheduleBulk is numThreads - 1 when the caller takes the last chunk
        # (options.wait) and numThreads otherwise -- evaluated on the paths of each flag value, so
        # that `wait ? n - 1 : n`, `n; if (wait) n = n - 1;`, `n - (wait ? 1 : 0)` ... are all the same
        nthreads = [prm["vid"] for prm in fn.params if prm.get("name") == "numThreads"]
        bulk = [(p, e) for p, e in fn.events() if e.get("k") == "call" and e.get("name") == "scheduleBulk"]
        if not nthreads or not bulk:
            continue
        n += 1
        NT = nthreads[0]

        from lib.rules import counts_under_flag
        verdict = counts_under_flag(fn, NT, is_flag)
        ok = verdict[True] == {"n-1"} and verdict[False] == {"n"}
        R.ob("C15.caller-chunk", fn, bulk[0][1], ok, "scheduleBulk gets numThreads - 1 when the caller runs the last chunk, numThreads otherwise" if ok else
             "chunk count handed to the pool does not match the caller's share (wait: %s, no wait: %s)" % (sorted(map(str, verdict[True])), sorted(map(str, verdict[False]))),
             sitekey="numToSchedule", why="each chunk must be run by exactly one party (a worker or the caller)")
    R.need("C15.caller-chunk", n, 2, "for_each_n_schedule overloads")
    task_captures(R)


def task_captures(R):
    """C15.task-captures: with wait = false the queued chunk tasks outlive for_each_n(): they own
    copies of what they use. The task lambda returned by each scheduleBulk generator in
    for_each_n_schedule captures nothing by reference (a reference to the caller's functor dangles
    as soon as the caller returns)."""
    F = R.F
    n = 0
    for fn in F.fns:
        # generator lambdas: direct children of for_each_n_schedule that are passed to scheduleBulk
        if not (fn.is_lambda and fn.parent is not None and not fn.parent.is_lambda and fn.parent.qname == "dispenso::detail::for_each_n_schedule"):
            continue
        for pos, ev in fn.events():
            if ev.get("k") != "return":
                continue
            for nd in subexprs(ev):
                if isinstance(nd, dict) and nd.get("k") == "lambda":
                    n += 1
                    refs = [c.get("name") for c in nd.get("captures", []) if c.get("byref") and c.get("name") != "this"]
                    R.ob("C15.task-captures", fn, ev, not refs, "the queued chunk task owns copies of everything it uses" if not refs else
                         "the queued chunk task captures %s by reference: with wait = false it runs after for_each_n() has returned and the caller's object is gone" % ", ".join(refs),
                         sitekey="task-lambda", why="all applications must have finished -- on live objects -- when the task set's wait() returns")
    R.need("C15.task-captures", n, 2, "chunk task lambdas of for_each_n_schedule")
