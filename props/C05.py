"""C05 — task exceptions are captured and rethrown exactly once (state-machine clause).

Decided on every CFG path:
  C05.catch-all     every body invocation in a packaged task wrapper and in invokeInline is inside a
                    try whose handlers include catch(...) and whose catch-all handler records the
                    exception with trySetCurrentException() (a narrower handler lets other exception
                    types escape the wrapper: the worker terminates or the counter is never
                    decremented).
  C05.set-once      trySetCurrentException writes exception_ only after winning the CAS
                    kUnset -> kSetting on the guard, then publishes kSet with a release store and
                    cancels the set.
  C05.take-once     testAndResetException reads exception_ only under an acquire load == kSet and
                    resets the guard to kUnset *before* rethrowing (so the same exception is not
                    delivered twice).
  C05.after-done    wait()/tryWait() call testAndResetException only after observing zero
                    outstanding tasks.
"""
import re
from lib.facts import Pos, const_val, expr_str, is_call, order_at_least, strip_casts, strip_move, subexprs
from lib.rules import atomic_ops, body_invocations, comparison_of, field_name, is_atomic_node, lvalue_path, callers_of

LEVEL = "other"
EXPLANATION = __doc__
NOT_DECIDED = ["races between concurrent wait() callers (outside the documented contract)", "which of several concurrently thrown exceptions is 'first'"]
GUARD = "dispenso::TaskSetBase::guardException_"
EXC = "dispenso::TaskSetBase::exception_"
CNT = "dispenso::TaskSetBase::outstandingTaskCount_"
WHY = "a throwing task must be captured by the set (and must not break completion accounting)"


def writes_field(fn, field):
    out = []
    for pos, ev in fn.events():
        if ev.get("k") in ("bin",) and ev.get("op") == "=":
            l = strip_casts(ev.get("l"))
            if isinstance(l, dict) and l.get("k") == "member" and l.get("field") == field:
                out.append((pos, ev))
        if ev.get("k") == "call" and ev.get("opcall") == "=":
            o = strip_casts(ev.get("obj"))
            if isinstance(o, dict) and o.get("k") == "member" and o.get("field") == field:
                out.append((pos, ev))
    return out


def run(R):
    F = R.F
    n = 0
    for fn in F.fns:
        wrapper = fn.is_lambda and fn.parent is not None and re.search(r"TaskSetBase::packageTask(NoIncrement)?$", fn.parent.qname)
        inline = fn.qname == "dispenso::TaskSetBase::invokeInline"
        if not (wrapper or inline):
            continue
        for pos, ev, var, via in body_invocations(fn, var_kinds=("initcapture", "captured", "param")):
            n += 1
            t = ev.get("try")
            tr = [x for x in fn.raw.get("tries", []) if x["id"] == t] if t else []
            catch_all = bool(tr) and any(h.get("all") for h in tr[0]["handlers"])
            narrow = [h.get("type") for h in tr[0]["handlers"] if not h.get("all")] if tr else []
            rec = bool(t) and any(e.get("catch") == t and is_call(e, "dispenso::TaskSetBase::trySetCurrentException") for _, e in fn.events())
            ok = catch_all and rec
            det = "inside try { } catch (...) { trySetCurrentException(); }" if ok else (
                "body call is not inside a try block" if not tr else
                ("handlers %s: no catch-all, other exception types escape the wrapper" % narrow if not catch_all else "catch-all handler does not record the exception"))
            R.ob("C05.catch-all", fn, ev, ok, det, sitekey="body", why=WHY)
    R.need("C05.catch-all", n, 3, "body invocations in packaged wrappers and invokeInline")

    n = 0
    for fn in F.functions(qname="dispenso::TaskSetBase::trySetCurrentException"):
        ops = atomic_ops(F, fn)
        cas = [a for a in ops if a.field == GUARD and a.op.startswith("compare_exchange")]
        wr = writes_field(fn, EXC)
        stores = [a for a in ops if a.field == GUARD and a.op == "store"]
        n += 1
        ok = bool(cas) and bool(wr) and bool(stores)
        det = []
        if ok:
            for p, e in wr:
                g = [1 for at, pol, b in fn.guard_atoms(p) if pol and isinstance(strip_casts(at), dict) and strip_casts(at).get("sid") == cas[0].node["sid"]]
                if not g:
                    ok = False
                    det.append("exception_ written without having won the CAS")
                if not any(fn.dominates(p, s.pos) and order_at_least(s.success_order, "release") for s in stores):
                    ok = False
                    det.append("no release store of the guard after the write")
            if not order_at_least(cas[0].success_order, "acquire"):
                ok = False
                det.append("CAS order %s" % cas[0].success_order)
            canc = [a for a in ops if a.field == "dispenso::TaskSetBase::canceled_" and a.is_write]
            if not canc:
                ok = False
                det.append("set is not cancelled when an exception is captured")
        R.ob("C05.set-once", fn, cas[0].node if cas else fn.loc, ok, "; ".join(det) or "CAS(kUnset->kSetting) wins -> exception_ = current -> store(kSet, release) -> canceled_ = true",
             sitekey="trySet", why="only the first exception is kept; later ones must not overwrite it while it is being read")
    for fn in F.functions(qname="dispenso::TaskSetBase::testAndResetException"):
        ops = atomic_ops(F, fn)
        loads = [a for a in ops if a.field == GUARD and a.op == "load"]
        stores = [a for a in ops if a.field == GUARD and a.op == "store"]
        reads = [(p, e) for p, e in fn.all_nodes() if e.get("k") == "member" and e.get("field") == EXC]
        rethrow = [(p, e) for p, e in fn.events() if is_call(e, "std::rethrow_exception")]
        n += 1
        ok = bool(loads) and bool(stores) and bool(reads) and bool(rethrow)
        det = []
        if ok:
            for p, e in reads:
                g = False
                for at, pol, b in fn.guard_atoms(p):
                    c = comparison_of(at, pol, lambda x: is_atomic_node(F, fn, x, GUARD, ("load",)))
                    if c and c[0] == "==" and order_at_least(loads[0].success_order, "acquire"):
                        g = True
                if not g:
                    ok = False
                    det.append("exception_ read without an acquire observation of kSet")
            for p, e in rethrow:
                if not any(fn.dominates(s.pos, p) for s in stores):
                    ok = False
                    det.append("guard not reset before rethrow (the exception would be delivered again)")
                if not any(fn.dominates(rp, p) for rp, _ in reads):
                    ok = False
        R.ob("C05.take-once", fn, loads[0].node if loads else fn.loc, ok, "; ".join(det) or "load(acquire) == kSet -> take exception_ -> store(kUnset) -> rethrow",
             sitekey="testAndReset", why="no captured exception is delivered twice")
    R.need("C05.set-once/take-once", n, 2, "exception state machine functions")

    n = 0
    for fn, pos, ev in callers_of(F, r"^dispenso::TaskSetBase::testAndResetException$"):
        n += 1
        ok = False
        for at, pol, b in fn.guard_atoms(pos):
            # `while (count.load())` left through its false edge, `if (count.load() == 0) break;`,
            # `if (count.load() != 0) return false;` ...: the counter was read as zero
            c = comparison_of(at, pol, lambda x: is_atomic_node(F, fn, x, CNT, ("load", "operator(conv)")))
            if c and c[0] == "==" and const_val(c[1]) == 0:
                ok = True
        R.ob("C05.after-done", fn, ev, ok, "called only after the counter was read zero" if ok else "exceptions are checked before completion: one captured later would be dropped or delivered with work outstanding",
             sitekey="call:testAndResetException", why="completion must be checked before exceptions")
    R.need("C05.after-done", n, 4, "calls of testAndResetException")
