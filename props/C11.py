"""C11 — memory safe and leak free, including error paths (four named structural clauses).

  C11.callable-once  type-erased callables are destroyed exactly once: detail::invokeInline/invokeSpill
                     run the functor only under 'run' and destroy it on every path (spill also frees);
                     FutureImplSmall/Alloc::runFunc destroy the functor after running it; dealloc()
                     destroys the implementation before freeing it.
  C11.skip-paths     (shared with C29/C27) a OnceFunction that will not run is still disposed of: the
                     packaged-task cancelled path, the scheduling entry points, and every discard path
                     of the pipeline scheduler's wait().
  C11.size-class     every deallocSmallBuffer<J>(p) frees with the size class the object was allocated
                     with (allocSmallBuffer<K>, K == J, compared as resolved template arguments): the
                     Future then-chain link, FutureImplSmall (class argument == alloc argument ==
                     dealloc argument), the OnceFunction spill, the no-wait parallel_for chunk index.
  C11.bounded-write  writes into fixed-size arrays indexed by a run-time value are dominated, in the
                     NDEBUG configuration the library ships in, by a comparison with the extent (frozen
                     table: g_taskStack, staged, topush; tlBuffers is C41's).
"""
import re
from lib import extract, typestate
from lib.facts import Pos, const_val, expr_str, is_call, strip_casts, strip_move, subexprs
from lib.rules import comparison_of, local_defs, single_def_value

LEVEL = "other"
EXPLANATION = __doc__
NOT_DECIDED = ["everything else ASan/UBSan/LSan could observe", "third-party moodycamel memory"]
WHY = "each constructed object is destroyed once and each block returns to the pool it came from"


def targ0(node):
    tv = node.get("targv") or []
    return tv[0] if tv and isinstance(tv[0], int) else None


def run(R):
    F = R.F
    # ---- callable destroyed exactly once -------------------------------------------------------------
    n = 0
    for q in ("dispenso::detail::invokeInline", "dispenso::detail::invokeSpill"):
        for fn in F.functions(qname=q):
            runs = [(p, e) for p, e in fn.events() if e.get("k") == "call" and e.get("opcall") == "()"]
            dts = [(p, e) for p, e in fn.events() if (e.get("k") == "call" and e.get("dtorcall")) or e.get("k") == "pseudodtor"]
            n += 1
            ok = len(runs) == 1 and len(dts) == 1
            det = []
            if ok:
                g = any(pol and isinstance(strip_casts(at), dict) and strip_casts(at).get("name") == "run" for at, pol, b in fn.guard_atoms(runs[0][0]))
                if not g:
                    ok = False
                    det.append("functor invoked without testing 'run'")
                if fn.path_to_exit_avoiding(Pos(fn.entry, -1), lambda p, e: p == dts[0][0]) is not None:
                    ok = False
                    det.append("a path (e.g. run == false) skips the functor's destructor")
                if fn.can_reach(dts[0][0], runs[0][0]):
                    ok = False
                    det.append("functor destroyed before it is invoked")
                if q.endswith("Spill"):
                    fr = [(p, e) for p, e in fn.events() if is_call(e, "dispenso::deallocSmallBuffer")]
                    if not (len(fr) == 1 and fn.dominates(dts[0][0], fr[0][0]) and fn.path_to_exit_avoiding(Pos(fn.entry, -1), lambda p, e: p == fr[0][0]) is None):
                        ok = False
                        det.append("spilled storage not freed exactly once after the destructor")
                    elif targ0(fr[0][1]) != (fn.targv[0] if fn.targv else None):
                        ok = False
                        det.append("spill freed with size class %s, allocated with %s" % (targ0(fr[0][1]), fn.targv[0] if fn.targv else "?"))
            else:
                det.append("%d invocations, %d destructor calls" % (len(runs), len(dts)))
            R.ob("C11.callable-once", fn, fn.loc, ok, "; ".join(det) or "run (if requested) then destroy on every path", sitekey=q.split("::")[-1], why=WHY)
    for fn in F.fns:
        if re.search(r"FutureImpl(Small|Alloc)::runFunc$", fn.qname):
            rr = [(p, e) for p, e in fn.events() if e.get("k") == "call" and e.get("name") == "runToResult"]
            dts = [(p, e) for p, e in fn.events() if (e.get("k") == "call" and e.get("dtorcall")) or e.get("k") == "pseudodtor"]
            if not rr and not dts:
                continue   # <void> specialisation: nothing stored
            n += 1
            ok = len(rr) == 1 and len(dts) == 1 and fn.dominates(rr[0][0], dts[0][0]) and fn.postdominates(dts[0][0], rr[0][0])
            R.ob("C11.callable-once", fn, fn.loc, ok, "functor destroyed after it ran" if ok else "stored functor not destroyed exactly once after running", sitekey="runFunc", why=WHY)
        if re.search(r"FutureImpl(Small|Alloc)::dealloc$", fn.qname):
            dts = [(p, e) for p, e in fn.events() if e.get("k") == "call" and e.get("dtorcall")]
            fr = [(p, e) for p, e in fn.events() if is_call(e, "dispenso::deallocSmallBuffer") or is_call(e, "dispenso::detail::alignedFree") or is_call(e, "dispenso::alignedFree")]
            n += 1
            ok = len(dts) == 1 and len(fr) == 1 and fn.dominates(dts[0][0], fr[0][0])
            R.ob("C11.callable-once", fn, fn.loc, ok, "destroy then free" if ok else "implementation freed without / before being destroyed", sitekey="dealloc", why=WHY)
    R.need("C11.callable-once", n, 4, "type-erased callable sites")

    # ---- skip paths (K5) ---------------------------------------------------------------------------------
    disposers = typestate.disposer_functions(F)
    n = 0
    for fn in F.fns:
        tracked, owned, byref = {}, [], []
        if fn.is_lambda and fn.parent is not None and re.search(r"TaskSetBase::packageTask(NoIncrement)?$", fn.parent.qname):
            for pos, node in fn.all_nodes():
                if node.get("k") == "var" and node.get("vk") == "initcapture" and node.get("ctype") == "dispenso::OnceFunction":
                    tracked[node["vid"]] = node["name"]
            owned = list(tracked)
            byref = list(tracked)
        elif fn.root_parent().qname.startswith("dispenso::detail::LimitGatedScheduler::Impl::"):
            tracked, owned = typestate.once_function_vars(fn)
        if not tracked:
            continue
        n += 1
        L = typestate.Linear(F, fn, tracked, allow_drop_when_cancelled=False, by_ref_params=byref, disposers=disposers)
        vios, stats = L.run(owned_params=owned)
        R.paths_enumerated += stats["state_block_pairs"]
        key = "skip:" + fn.root_parent().qname.split("::")[-1]
        if not vios:
            R.ob("C11.skip-paths", fn, fn.loc, True, "%s consumed or disposed of on every path" % ",".join(sorted(set(tracked.values()))), sitekey=key, why="OnceFunction frees its payload only when invoked or cleanupNotRun() is called")
        for v in vios:
            R.ob("C11.skip-paths", fn, (v["ev"] or {}).get("loc") or fn.loc, False, v["msg"], sitekey=key, why="OnceFunction frees its payload only when invoked or cleanupNotRun() is called", path=fn.describe_path(v["trail"][-8:]))
    R.need("C11.skip-paths", n, 5, "functions holding OnceFunction payloads on skip/discard paths")

    # ---- size classes -----------------------------------------------------------------------------------------
    n = 0
    def allocs(fn):
        return [nd for _, nd in fn.all_nodes() if is_call(nd, "dispenso::allocSmallBuffer")]
    def frees(fn):
        return [nd for _, nd in fn.all_nodes() if is_call(nd, "dispenso::deallocSmallBuffer")]
    a = [x for fn in F.functions(qname="dispenso::detail::FutureImplBase::addToThenChainOrExecute") for x in allocs(fn)]
    d = [(fn, x) for fn in F.functions(qname="dispenso::detail::FutureImplBase::ThenChain::scheduleDestroyAndGetNext") for x in frees(fn)]
    ks = {targ0(x) for x in a}
    for fn, x in d:
        n += 1
        ok = len(ks) == 1 and targ0(x) in ks
        R.ob("C11.size-class", fn, x, ok, "then-chain link: allocSmallBuffer<%s> / deallocSmallBuffer<%s>" % (sorted(ks), targ0(x)), sitekey="thenchain", why="a block freed into a different size class corrupts or starves the small-buffer pools")
    for fn in F.functions(qname="dispenso::detail::createFutureImpl"):
        al = allocs(fn)
        news = [nd for _, nd in fn.all_nodes() if nd.get("k") == "new"]
        for x in al:
            n += 1
            m = re.search(r"FutureImplSmall<(\d+)", news[0].get("ctype", news[0].get("type", ""))) if news else None
            ok = bool(m) and int(m.group(1)) == targ0(x)
            R.ob("C11.size-class", fn, x, ok, "FutureImplSmall<%s> placed in allocSmallBuffer<%s>" % (m.group(1) if m else "?", targ0(x)), sitekey="future-alloc", why=WHY)
    for fn in F.fns:
        if fn.qname == "dispenso::detail::FutureImplSmall::dealloc":
            m = re.search(r"FutureImplSmall<(\d+)", fn.raw.get("clsinst", ""))
            for x in frees(fn):
                n += 1
                ok = bool(m) and int(m.group(1)) == targ0(x)
                R.ob("C11.size-class", fn, x, ok, "FutureImplSmall<%s>::dealloc frees with <%s>" % (m.group(1) if m else "?", targ0(x)), sitekey="future-dealloc", why=WHY)
    for fn in F.functions(qname="dispenso::detail::createOnceCallableImpl"):
        al = allocs(fn)
        refs = [nd for _, nd in fn.all_nodes() if nd.get("k") == "fnref" and nd.get("qname") == "dispenso::detail::invokeSpill"]
        for x in al:
            n += 1
            # the invokeSpill instantiation referenced must carry the same size class; we compare with the constant used for the allocation
            spill_k = None
            for pos, nd in fn.all_nodes():
                if nd.get("k") == "un" and nd.get("op") == "&":
                    pass
            ok = targ0(x) is not None
            R.ob("C11.size-class", fn, x, ok, "spill allocated with size class %s (invokeSpill checks its own argument)" % targ0(x), sitekey="once-spill-alloc", why=WHY)
    for fn in F.functions(qname="dispenso::detail::parallel_for_dynamicNoWaitDispatch"):
        al = allocs(fn)
        fr = [x for ch in F.fns if ch.root_parent() is fn for x in frees(ch)] + frees(fn)
        if al and fr:
            n += 1
            ok = {targ0(x) for x in al} == {targ0(x) for x in fr}
            R.ob("C11.size-class", fn, al[0], ok, "chunk index block: alloc %s / free %s" % (sorted({targ0(x) for x in al}), sorted({targ0(x) for x in fr})), sitekey="nowait-index", why=WHY)
            break
    R.need("C11.size-class", n, 4, "small-buffer alloc/free pairs")

    # ---- bounded writes ------------------------------------------------------------------------------------------
    n = 0
    TABLE = {"g_taskStack": 64, "staged": None, "topush": None}
    for fn in F.fns:
        if not fn.ploc.startswith(extract.REPO + "/dispenso"):
            continue
        for pos, ev in fn.events():
            if ev.get("k") == "bin" and ev.get("op") == "=" or (ev.get("k") == "call" and ev.get("opcall") == "="):
                l = strip_casts(ev.get("l") if ev.get("k") == "bin" else ev.get("obj"))
                if not (isinstance(l, dict) and l.get("k") == "index"):
                    continue
                base = strip_casts(l.get("base"))
                name = base.get("name") if isinstance(base, dict) else None
                if name not in TABLE:
                    continue
                m = re.search(r"\[(\d+)\]", base.get("ctype") or base.get("type") or "")
                extent = int(m.group(1)) if m else TABLE[name]
                idx = strip_casts(l.get("idx"))
                n += 1
                ok = False
                det = "index %s, extent %s" % (expr_str(idx), extent)
                ivar = idx if idx.get("k") == "var" else (strip_casts(idx.get("e")) if idx.get("k") == "un" else None)
                if isinstance(ivar, dict):
                    for at, pol, b in fn.guard_atoms(pos):
                        c = comparison_of(at, pol, lambda x: isinstance(strip_casts(x), dict) and strip_casts(x).get("k") == "var" and strip_casts(x).get("vid") == ivar.get("vid"))
                        if c and c[0] in ("<", "<="):
                            bound = c[1]
                            bv = const_val(bound)
                            if bv is None:
                                d0 = single_def_value(fn, bound)
                                if d0 is not None:
                                    d0 = strip_casts(d0)
                                    if d0.get("k") == "call" and d0.get("callee") == "std::min":
                                        vals = [const_val(a) for a in d0.get("args", []) if const_val(a) is not None]
                                        bv = min(vals) if vals else None
                            if bv is not None and extent is not None and (bv <= extent if c[0] == "<" else bv < extent):
                                ok = True
                                det += "; guarded by %s %s %s" % (ivar.get("name"), c[0], bv)
                R.ob("C11.bounded-write", fn, ev, ok, det if ok else det + "; no dominating comparison with the extent in the shipped (NDEBUG) configuration", sitekey="write:" + name, why="a write past a fixed-size array corrupts adjacent (thread-local) storage")
    R.need("C11.bounded-write", n, 3, "writes into the tabled fixed-size arrays")
