"""C11 — memory safe and leak free, including error paths (four named structural clauses).

  C11.callable-once  type-erased callables are destroyed exactly once: detail::invokeInline/invokeSpill
                     run the functor only under 'run' and destroy it on every path (spill also frees);
                     FutureImplSmall/Alloc::runFunc destroy the functor after running it; dealloc()
                     destroys the implementation before freeing it.
  C11.skip-paths     (shared with C29/C27) a OnceFunction that will not run is still disposed of: the
                     packaged-task cancelled path, the scheduling entry points, and every discard path
                     of the pipeline scheduler's wait().
  C11.size-class     every deallocSmallBuffer<J>(p) frees with the size class the object was allocated
                     with (allocSmallBuffer<K>, K == J, compared as resolved template arguments): the
                     Future then-chain link, FutureImplSmall (class argument == alloc argument ==
                     dealloc argument), the OnceFunction spill, the no-wait parallel_for chunk index.
  C11.bounded-write  writes into fixed-size arrays indexed by a run-time value are dominated, in the
                     NDEBUG configuration the library ships in, by a comparison with the extent (frozen
                     table: g_taskStack, staged, topush; tlBuffers is C41's).
  C11.swap-remove   every swap-remove loop (`v[i] = v[n-1]; --n`) keeps i on the removal path, so the
                    moved-in element is examined too (Subgraph::removePredecessorDependencies: a
                    skipped element is a dangling Node* to a node destroyed right afterwards).
"""
import re
from lib import extract, typestate
from lib.facts import Pos, const_val, expr_str, is_call, strip_casts, strip_move, subexprs
from lib.rules import comparison_of, local_defs, single_def_value

LEVEL = "other"
EXPLANATION = __doc__
NOT_DECIDED = ["everything else ASan/UBSan/LSan could observe", "third-party moodycamel memory"]
WHY = "each constructed object is destroyed once and each block returns to the pool it came from"


def targ0(node):
    tv = node.get("targv") or []
    return tv[0] if tv and isinstance(tv[0], int) else None


def run(R):
    F = R.F
    # ---- callable destroyed exactly once -------------------------------------------------------------
    n = 0
    n += callable_once(R, "C11.callable-once", WHY)
    for fn in F.fns:
        if re.search(r"FutureImpl(Small|Alloc)::runFunc$", fn.qname):
            rr = [(p, e) for p, e in fn.events() if e.get("k") == "call" and e.get("name") == "runToResult"]
            dts = [(p, e) for p, e in fn.events() if (e.get("k") == "call" and e.get("dtorcall")) or e.get("k") == "pseudodtor"]
            if not rr and not dts:
                continue   # <void> specialisation: nothing stored
            n += 1
            ok = len(rr) == 1 and len(dts) == 1 and fn.dominates(rr[0][0], dts[0][0]) and fn.postdominates(dts[0][0], rr[0][0])
            R.ob("C11.callable-once", fn, fn.loc, ok, "functor destroyed after it ran" if ok else "stored functor not destroyed exactly once after running", sitekey="runFunc", why=WHY)
        if re.search(r"FutureImpl(Small|Alloc)::dealloc$", fn.qname):
            dts = [(p, e) for p, e in fn.events() if e.get("k") == "call" and e.get("dtorcall")]
            fr = [(p, e) for p, e in fn.events() if is_call(e, "dispenso::deallocSmallBuffer") or is_call(e, "dispenso::detail::alignedFree") or is_call(e, "dispenso::alignedFree")]
            n += 1
            ok = len(dts) == 1 and len(fr) == 1 and fn.dominates(dts[0][0], fr[0][0])
            R.ob("C11.callable-once", fn, fn.loc, ok, "destroy then free" if ok else "implementation freed without / before being destroyed", sitekey="dealloc", why=WHY)
    R.need("C11.callable-once", n, 4, "type-erased callable sites")

    # ---- skip paths (K5) ---------------------------------------------------------------------------------
    disposers = typestate.disposer_functions(F)
    n = 0
    for fn in F.fns:
        tracked, owned, byref = {}, [], []
        if fn.is_lambda and fn.parent is not None and re.search(r"TaskSetBase::packageTask(NoIncrement)?$", fn.parent.qname):
            for pos, node in fn.all_nodes():
                if node.get("k") == "var" and node.get("vk") == "initcapture" and node.get("ctype") == "dispenso::OnceFunction":
                    tracked[node["vid"]] = node["name"]
            owned = list(tracked)
            byref = list(tracked)
        elif fn.root_parent().qname.startswith("dispenso::detail::LimitGatedScheduler::Impl::"):
            tracked, owned = typestate.once_function_vars(fn)
        if not tracked:
            continue
        n += 1
        L = typestate.Linear(F, fn, tracked, allow_drop_when_cancelled=False, by_ref_params=byref, disposers=disposers)
        vios, stats = L.run(owned_params=owned)
        R.paths_enumerated += stats["state_block_pairs"]
        key = "skip:" + fn.root_parent().qname.split("::")[-1]
        if not vios:
            R.ob("C11.skip-paths", fn, fn.loc, True, "%s consumed or disposed of on every path" % ",".join(sorted(set(tracked.values()))), sitekey=key, why="OnceFunction frees its payload only when invoked or cleanupNotRun() is called")
        for v in vios:
            R.ob("C11.skip-paths", fn, (v["ev"] or {}).get("loc") or fn.loc, False, v["msg"], sitekey=key, why="OnceFunction frees its payload only when invoked or cleanupNotRun() is called", path=fn.describe_path(v["trail"][-8:]))
    R.need("C11.skip-paths", n, 5, "functions holding OnceFunction payloads on skip/discard paths")

    # ---- size classes -----------------------------------------------------------------------------------------
    n = 0
    def allocs(fn):
        return [nd for _, nd in fn.all_nodes() if is_call(nd, "dispenso::allocSmallBuffer")]
    def frees(fn):
        return [nd for _, nd in fn.all_nodes() if is_call(nd, "dispenso::deallocSmallBuffer")]
    a = [x for fn in F.functions(qname="dispenso::detail::FutureImplBase::addToThenChainOrExecute") for x in allocs(fn)]
    d = [(fn, x) for fn in F.functions(qname="dispenso::detail::FutureImplBase::ThenChain::scheduleDestroyAndGetNext") for x in frees(fn)]
    ks = {targ0(x) for x in a}
    for fn, x in d:
        n += 1
        ok = len(ks) == 1 and targ0(x) in ks
        R.ob("C11.size-class", fn, x, ok, "then-chain link: allocSmallBuffer<%s> / deallocSmallBuffer<%s>" % (sorted(ks), targ0(x)), sitekey="thenchain", why="a block freed into a different size class corrupts or starves the small-buffer pools")
    for fn in F.functions(qname="dispenso::detail::createFutureImpl"):
        al = allocs(fn)
        news = [nd for _, nd in fn.all_nodes() if nd.get("k") == "new"]
        for x in al:
            n += 1
            m = re.search(r"FutureImplSmall<(\d+)", news[0].get("ctype", news[0].get("type", ""))) if news else None
            ok = bool(m) and int(m.group(1)) == targ0(x)
            R.ob("C11.size-class", fn, x, ok, "FutureImplSmall<%s> placed in allocSmallBuffer<%s>" % (m.group(1) if m else "?", targ0(x)), sitekey="future-alloc", why=WHY)
    for fn in F.fns:
        if fn.qname == "dispenso::detail::FutureImplSmall::dealloc":
            m = re.search(r"FutureImplSmall<(\d+)", fn.raw.get("clsinst", ""))
            for x in frees(fn):
                n += 1
                ok = bool(m) and int(m.group(1)) == targ0(x)
                R.ob("C11.size-class", fn, x, ok, "FutureImplSmall<%s>::dealloc frees with <%s>" % (m.group(1) if m else "?", targ0(x)), sitekey="future-dealloc", why=WHY)
    for fn in F.functions(qname="dispenso::detail::createOnceCallableImpl"):
        al = allocs(fn)
        refs = [nd for _, nd in fn.all_nodes() if nd.get("k") == "fnref" and nd.get("qname") == "dispenso::detail::invokeSpill"]
        for x in al:
            n += 1
            # the invokeSpill instantiation referenced must carry the same size class; we compare with the constant used for the allocation
            spill_k = None
            for pos, nd in fn.all_nodes():
                if nd.get("k") == "un" and nd.get("op") == "&":
                    pass
            ok = targ0(x) is not None
            R.ob("C11.size-class", fn, x, ok, "spill allocated with size class %s (invokeSpill checks its own argument)" % targ0(x), sitekey="once-spill-alloc", why=WHY)
    for fn in F.functions(qname="dispenso::detail::parallel_for_dynamicNoWaitDispatch"):
        al = allocs(fn)
        fr = [x for ch in F.fns if ch.root_parent() is fn for x in frees(ch)] + frees(fn)
        if al and fr:
            n += 1
            ok = {targ0(x) for x in al} == {targ0(x) for x in fr}
            R.ob("C11.size-class", fn, al[0], ok, "chunk index block: alloc %s / free %s" % (sorted({targ0(x) for x in al}), sorted({targ0(x) for x in fr})), sitekey="nowait-index", why=WHY)
            break
    R.need("C11.size-class", n, 4, "small-buffer alloc/free pairs")

    # ---- bounded writes ------------------------------------------------------------------------------------------
    n = 0
    TABLE = {"g_taskStack": 64, "staged": None, "topush": None}
    for fn in F.fns:
        if not fn.ploc.startswith(extract.REPO + "/dispenso"):
            continue
        for pos, ev in fn.events():
            if ev.get("k") == "bin" and ev.get("op") == "=" or (ev.get("k") == "call" and ev.get("opcall") == "="):
                l = strip_casts(ev.get("l") if ev.get("k") == "bin" else ev.get("obj"))
                if not (isinstance(l, dict) and l.get("k") == "index"):
                    continue
                base = strip_casts(l.get("base"))
                name = base.get("name") if isinstance(base, dict) else None
                if name not in TABLE:
                    continue
                m = re.search(r"\[(\d+)\]", base.get("ctype") or base.get("type") or "")
                extent = int(m.group(1)) if m else TABLE[name]
                idx = strip_casts(l.get("idx"))
                n += 1
                ok = False
                det = "index %s, extent %s" % (expr_str(idx), extent)
                ivar = idx if idx.get("k") == "var" else (strip_casts(idx.get("e")) if idx.get("k") == "un" else None)
                if isinstance(ivar, dict):
                    for at, pol, b in fn.guard_atoms(pos):
                        c = comparison_of(at, pol, lambda x: isinstance(strip_casts(x), dict) and strip_casts(x).get("k") == "var" and strip_casts(x).get("vid") == ivar.get("vid"))
                        if c and c[0] in ("<", "<="):
                            bound = c[1]
                            bv = const_val(bound)
                            if bv is None:
                                d0 = single_def_value(fn, bound)
                                if d0 is not None:
                                    d0 = strip_casts(d0)
                                    if d0.get("k") == "call" and d0.get("callee") == "std::min":
                                        vals = [const_val(a) for a in d0.get("args", []) if const_val(a) is not None]
                                        bv = min(vals) if vals else None
                            if bv is not None and extent is not None and (bv <= extent if c[0] == "<" else bv < extent):
                                ok = True
                                det += "; guarded by %s %s %s" % (ivar.get("name"), c[0], bv)
                R.ob("C11.bounded-write", fn, ev, ok, det if ok else det + "; no dominating comparison with the extent in the shipped (NDEBUG) configuration", sitekey="write:" + name, why="a write past a fixed-size array corrupts adjacent (thread-local) storage")
    R.need("C11.bounded-write", n, 3, "writes into the tabled fixed-size arrays")

    # ---- swap-remove loops re-examine the element they moved in ----------------------------------------------
    # `v[i] = v[n - 1]; --n;` removes element i by overwriting it with the last one; the element now at
    # i has not been looked at. Advancing i on that path skips it: in Subgraph::clear() a skipped
    # element is an edge to a node that is about to be destroyed -- a dangling Node* that the next
    # executor run dereferences.
    from lib.rules import natural_loops
    ns = 0
    for fn in F.fns:
        if not fn.qname.startswith("dispenso::"):
            continue
        for p, e in fn.events():
            if not (e.get("k") == "bin" and e.get("op") == "="):
                continue
            def elem(x):
                x = strip_casts(x)
                if isinstance(x, dict) and x.get("k") == "index":
                    return expr_str(x.get("base")), strip_casts(x.get("idx"))
                if isinstance(x, dict) and x.get("k") == "call" and (x.get("opcall") == "[]" or x.get("name") == "operator[]") and x.get("args"):
                    return expr_str(x.get("obj")), strip_casts(x["args"][0])
                return None
            L, Rr = elem(e.get("l")), elem(e.get("r"))
            if not L or not Rr or L[0] != Rr[0]:
                continue
            iv, last = L[1], Rr[1]
            if not (isinstance(iv, dict) and iv.get("k") == "var" and isinstance(last, dict) and last.get("k") == "bin" and last.get("op") == "-" and const_val(last.get("r")) == 1
                    and isinstance(strip_casts(last.get("l")), dict) and strip_casts(last.get("l")).get("k") == "var"):
                continue
            nv = strip_casts(last.get("l"))["vid"]
            for h, body, tails in natural_loops(fn):
                if p.b not in body:
                    continue
                c = comparison_of((fn.term(h) or {}).get("cond"), True, lambda x: isinstance(strip_casts(x), dict) and strip_casts(x).get("k") == "var" and strip_casts(x).get("vid") == iv.get("vid"))
                if not (c and c[0] in ("<", "!=") and isinstance(strip_casts(c[1]), dict) and strip_casts(c[1]).get("vid") == nv):
                    continue
                ns += 1
                reach = fn.reachable_blocks(start=p.b, removed_blocks={h} if h != p.b else set())
                bad = None
                for q, qe in fn.events():
                    is_inc = (qe.get("k") == "un" and qe.get("op") == "++" and isinstance(strip_casts(qe.get("e")), dict) and strip_casts(qe.get("e")).get("vid") == iv.get("vid")) or \
                             (qe.get("k") == "bin" and qe.get("op") == "+=" and isinstance(strip_casts(qe.get("l")), dict) and strip_casts(qe.get("l")).get("vid") == iv.get("vid"))
                    if is_inc and q.b in body and ((q.b == p.b and q.i > p.i) or (q.b != p.b and q.b in reach)):
                        bad = qe
                R.ob("C11.swap-remove", fn, e, bad is None, "after %s[%s] = %s[%s - 1] the index is not advanced: the moved-in element is examined next" % (L[0], iv.get("name"), L[0], strip_casts(last.get("l")).get("name")) if bad is None else
                     "after removing element %s by swapping in the last one, %s is advanced: the moved-in element is never examined (a stale entry survives the filter)" % (iv.get("name"), iv.get("name")),
                     sitekey="swap-remove:" + L[0].split(".")[-1].split(">")[-1], why="a filter that skips elements leaves pointers to objects that are destroyed right after it")
                break
    R.need("C11.swap-remove", ns, 1, "swap-remove loops (Subgraph::removePredecessorDependencies)")


def callable_once(R, inst, why):
    """detail::invokeInline / invokeSpill: on every path the functor is invoked at most once and only
    when asked (run == true), destroyed exactly once (also when run == false: cleanupNotRun), and the
    spilled block is freed exactly once after the destructor, with its own size class. Shared by C11
    and C39."""
    F = R.F
    n = 0
    from lib import dataflow
    for q in ("dispenso::detail::invokeInline", "dispenso::detail::invokeSpill"):
        for fn in F.functions(qname=q):
            spill = q.endswith("Spill")
            is_run = lambda e: e.get("k") == "call" and e.get("opcall") == "()"
            is_dt = lambda e: (e.get("k") == "call" and e.get("dtorcall")) or e.get("k") == "pseudodtor"
            is_fr = lambda e: is_call(e, "dispenso::deallocSmallBuffer")
            runs = [(p, e) for p, e in fn.events() if is_run(e)]
            n += 1
            det = []
            # counted on every path (a rewrite may duplicate the tail into both branches):
            # (invocations, destructor calls, frees), each saturating at 2
            def transfer(pos, ev, st):
                r, d, f = st
                if is_run(ev):
                    if d or f:
                        raise dataflow.Violation("functor invoked after it was destroyed / its storage freed")
                    r = min(r + 1, 2)
                elif is_dt(ev):
                    if f:
                        raise dataflow.Violation("functor destroyed after its storage was freed")
                    d = min(d + 1, 2)
                elif is_fr(ev):
                    if not d:
                        raise dataflow.Violation("spilled storage freed before the functor's destructor ran")
                    f = min(f + 1, 2)
                    if targ0(ev) != (fn.targv[0] if fn.targv else None):
                        raise dataflow.Violation("spill freed with size class %s, allocated with %s" % (targ0(ev), fn.targv[0] if fn.targv else "?"))
                return (r, d, f)
            def at_exit(st):
                r, d, f = st
                if r > 1:
                    return "functor can be invoked twice"
                if d != 1:
                    return "a path (e.g. run == false) destroys the functor %d times" % d
                if spill and f != 1:
                    return "spilled storage freed %d times on a path" % f
                return None
            vios, stats = dataflow.run(fn, (0, 0, 0), transfer, None, at_exit)
            det += [v["msg"] for v in vios]
            if not runs:
                det.append("the functor is never invoked")
            for rp, _ in runs:
                if not any(pol and isinstance(strip_casts(at), dict) and strip_casts(at).get("name") == "run" for at, pol, b in fn.guard_atoms(rp)):
                    det.append("functor invoked without testing 'run'")
            ok = not det
            R.ob(inst, fn, fn.loc, ok, "; ".join(sorted(set(det))) or "run (if requested) then destroy%s, exactly once on every path" % (" then free" if spill else ""), sitekey=q.split("::")[-1], why=why)
    return n
