"""C39 — OnceFunction invokes and destroys its callable exactly once (storage witnesses + invoke clauses).

  C39.placement     for a generated family of callables (sizes 1..512, alignments 1..256) the storage
                    chosen by createOnceCallable is read from the instantiated AST: the inline variant is
                    taken only if the callable fits the inline buffer (size <= kOnceFunctionInlineSize
                    and align <= alignof(OnceFunction)); the spill variant allocates a size class K with
                    K >= sizeof, K a multiple of alignof, the blocks of class K (pooled: K-aligned
                    slabs; above 256: the alignment passed to alignedMalloc) are aligned to a multiple
                    of alignof, and every callable that does not fit inline does spill.
  C39.layout        OnceFunction is 64 bytes, 64-byte aligned, with the invoke pointer after the inline
                    buffer; small-buffer ordinals map each size class to the allocator instantiated for
                    it (4,8,..,256), and the allocator carves its slabs (allocated with alignment K) in
                    steps of K, so a block of class K is K-aligned.
  C39.invoke        detail::invokeInline / invokeSpill run only when asked and destroy on every path
                    (shared with C11); operator() passes run = true, cleanupNotRun() passes false; the move
                    operations copy the whole object.
"""
import re
from lib.facts import Pos, const_val, expr_str, is_call, strip_casts, subexprs

LEVEL = "other"
EXPLANATION = __doc__
DRIVERS = ["witness.cpp", "umbrella.cpp", "misc.cpp"]
NOT_DECIDED = ["'at most once' against user misuse (calling a OnceFunction twice)", "self-referential callables relocated by memcpy (documented contract)"]
WHY = "the callable must live at an address that satisfies its alignment, inside storage that is large enough"


def run(R):
    F = R.F
    W = lambda k: (F.witnesses.get("dsa_driver::dsa_w_" + k) or {}).get("value")
    inline_size = W("once_inline_size")
    once_align = W("once_alignof")
    # alignment of the block that allocSmallBuffer<K>() hands out, read from allocSmallOrLarge<K>:
    # pooled classes are K-aligned (C39.layout: slab rule), large ones are whatever alignment the
    # alignedMalloc call asks for (the one-argument overload asks for a cache line)
    def malloc_alignment(fn, call, depth=0):
        args = call.get("args", [])
        if len(args) >= 2:
            return const_val(args[1])
        cf = F.callee_fn(fn, call)
        if cf is None or depth > 2:
            return None
        inner = [nd for _, nd in cf.all_nodes() if nd.get("k") == "call" and (nd.get("callee") or "").endswith("alignedMalloc")]
        return malloc_alignment(cf, inner[0], depth + 1) if len(inner) == 1 else None

    block_align = {}
    for fn in F.functions(qname="dispenso::detail::allocSmallOrLarge"):
        K = (fn.targv or [None])[0]
        if not isinstance(K, int):
            continue
        am = [nd for _, nd in fn.all_nodes() if nd.get("k") == "call" and (nd.get("callee") or "").endswith("alignedMalloc")]
        pool = [nd for _, nd in fn.all_nodes() if nd.get("k") == "call" and (nd.get("callee") or "").endswith("allocSmallBufferImpl")]
        if len(am) == 1 and not pool:
            block_align[K] = malloc_alignment(fn, am[0])
        elif len(pool) == 1 and not am:
            block_align[K] = K
    n = 0
    seen = {}
    for fn in F.functions(qname="dispenso::detail::createOnceCallableImpl"):
        tag = fn.params[2].get("ctype", fn.params[2].get("type", "")) if len(fn.params) > 2 else ""
        inline = "true" in tag
        news = [nd for _, nd in fn.all_nodes() if nd.get("k") == "new" and nd.get("placement")]
        if not news:
            continue
        size, align = news[0].get("tsize"), news[0].get("talign")
        n += 1
        key = "%s:size%s:align%s" % ("inline" if inline else "spill", size, align)
        if inline:
            ok = inline_size is not None and size <= inline_size and align <= (once_align or 0)
            R.ob("C39.placement", fn, news[0], ok, "callable of %d bytes / align %d stored inline (buffer %s bytes, align %s)" % (size, align, inline_size, once_align), sitekey=key, why=WHY)
        else:
            al = [nd for _, nd in fn.all_nodes() if is_call(nd, "dispenso::allocSmallBuffer")]
            K = (al[0].get("targv") or [None])[0] if al else None
            ba = block_align.get(K)
            ok = isinstance(K, int) and K >= size and K % align == 0 and isinstance(ba, int) and ba % align == 0
            R.ob("C39.placement", fn, news[0], ok, "callable of %d bytes / align %d spilled to size class %s, whose blocks are %s-aligned" % (size, align, K, ba), sitekey=key, why=WHY)
        seen[(size, align)] = inline
    # completeness of the selection on the family: everything that does not fit is spilled
    for (size, align), inline in sorted(seen.items()):
        fits = inline_size is not None and size <= inline_size and align <= (once_align or 0)
        if not fits:
            n += 1
            R.ob("C39.placement", None, "drivers/witness.cpp", not inline, "size %d align %d does not fit inline and is %s" % (size, align, "spilled" if not inline else "stored INLINE"), sitekey="selection:size%d:align%d" % (size, align), why=WHY)
    R.need("C39.placement", n, 12, "createOnceCallableImpl instantiations of the witness family")
    R.need("C39.placement", sum(1 for k in block_align if k > 256), 1, "allocSmallOrLarge<K> instantiations for K above the pooled classes")
    R.need("C39.placement", sum(1 for (sz, al), inl in seen.items() if not inl and sz > 256 and al > 64), 1, "witness callables that are both larger than the pooled classes and over-aligned")

    n = 0
    n += 1
    # the invoke pointer lives after the inline buffer: the object must be large enough for both
    R.ob("C39.layout", None, "dispenso/once_function.h", (W("once_sizeof") or 0) >= (inline_size or 0) + 8 and (once_align or 0) >= 8, "sizeof(OnceFunction)=%s alignof=%s inline buffer=%s" % (W("once_sizeof"), once_align, inline_size), sitekey="layout", why=WHY)
    expect = {4: 0, 8: 1, 16: 2, 32: 3, 64: 4, 128: 5, 256: 6}
    for k, o in expect.items():
        n += 1
        R.ob("C39.layout", None, "dispenso/small_buffer_allocator.h", W("ordinal_%d" % k) == o, "getOrdinal(%d) = %s (allocator case %d serves class %d)" % (k, W("ordinal_%d" % k), o, k), sitekey="ordinal:%d" % k, why="a size class must be served by the allocator of that class")
    # allocSmallBufferImpl: case o -> SmallBufferAllocator<2^(o+2)>
    for fn in F.functions(qname="dispenso::detail::allocSmallBufferImpl"):
        for b, blk in fn.blocks.items():
            lab = blk.get("label") or {}
            if lab.get("kind") == "CaseStmt" and lab.get("value") is not None:
                o = const_val(lab["value"])
                calls = [e for e in blk["elems"] if e.get("k") == "call" and (e.get("callee") or "").endswith("SmallBufferAllocator::alloc")]
                if calls and o is not None:
                    n += 1
                    m = re.search(r"SmallBufferAllocator<(\d+)>", (calls[0].get("cls") or "") + str(calls[0].get("targs", "")))
                    cf = F.callee_fn(fn, calls[0])
                    k = None
                    if cf is not None:
                        mm = re.search(r"SmallBufferAllocator<(\d+)", cf.raw.get("clsinst", ""))
                        k = int(mm.group(1)) if mm else None
                    R.ob("C39.layout", fn, calls[0], k == 4 << o, "ordinal %d -> SmallBufferAllocator<%s>" % (o, k), sitekey="case:%d" % o, why="a size class must be served by the allocator of that class")
    for fn in F.functions(qname="dispenso::detail::SmallBufferAllocator::grabFromCentralStore"):
        mm = re.search(r"SmallBufferAllocator<(\d+)", fn.raw.get("clsinst", ""))
        K = int(mm.group(1)) if mm else None
        am = [nd for _, nd in fn.all_nodes() if nd.get("k") == "call" and (nd.get("callee") or "").endswith("alignedMalloc")]
        steps = [e for _, e in fn.events() if e.get("k") == "bin" and e.get("op") == "+=" and isinstance(strip_casts(e.get("l")), dict) and strip_casts(e.get("l")).get("name") == "buffer"]
        n += 1
        ok = bool(am) and const_val(am[0]["args"][1]) == K and bool(steps) and all(const_val(s.get("r")) == K for s in steps)
        R.ob("C39.layout", fn, am[0] if am else fn.loc, ok, "slab aligned to %s and carved in steps of %s" % (const_val(am[0]["args"][1]) if am else "?", sorted({const_val(s.get("r")) for s in steps})), sitekey="slab:%s" % K, why="blocks of class K must be K-aligned")
    R.need("C39.layout", n, 15, "layout witnesses")

    n = 0
    for fn in F.functions(cls="dispenso::OnceFunction"):
        nm = fn.qname.split("::")[-1]
        if nm in ("operator()", "cleanupNotRun"):
            calls = [e for _, e in fn.events() if e.get("k") == "call" and e.get("callee") is None]
            n += 1
            want = 1 if nm == "operator()" else 0
            ok = len(calls) == 1 and len(calls[0].get("args", [])) == 2 and const_val(calls[0]["args"][1]) == want
            R.ob("C39.invoke", fn, fn.loc, ok, "%s calls invoke_(buf_, %s)" % (nm, "true" if want else "false"), sitekey=nm, why="operator() runs and destroys; cleanupNotRun only destroys")
        if nm in ("(ctor)", "operator=") and fn.params and "OnceFunction &&" in fn.params[0].get("type", ""):
            n += 1
            mc = [e for _, e in fn.events() if is_call(e, "memcpy") or is_call(e, "std::memcpy")]
            ok = bool(mc) and any(nn.get("k") == "sizeof" and const_val(nn) == W("once_sizeof") for nn in subexprs(mc[0]))
            R.ob("C39.invoke", fn, fn.loc, ok, "move copies all sizeof(OnceFunction) bytes" if ok else "move does not transfer the whole object (buffer and invoke pointer)", sitekey="move:" + nm, why="moving a OnceFunction transfers the obligation to invoke/clean up")
    from props import C11 as _c11
    n += _c11.callable_once(R, "C39.invoke", "the callable is invoked at most once and destroyed exactly once, on operator() and on cleanupNotRun()")
    R.need("C39.invoke", n, 6, "OnceFunction invoke/move functions and the type-erased invoke thunks")
