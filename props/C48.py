"""C48 — maxThreads bounds the concurrency of parallel loops (upper-bound clauses).

Decided by a symbolic upper-bound discipline on the thread-count variables:
  C48.cap-monotone  adjustChunkSizing, parallel_for_staticImpl and for_each_n only ever *lower* the
                    thread cap: every assignment to the cap variable after its initialisation is
                    min(cap, ...) (or max(1, x) with x already bounded), or assigns a value that the
                    dominating guard proved smaller than the cap.
  C48.launch-count  the number of tasks handed to scheduleBulk is cap - (caller participates):
                    numToLaunch = min(maxThreads - wait, N); static: wait ? n-1 : n; for_each likewise.
  C48.serial        parallel dispatch in parallel_for is reached only when maxThreads >= 2 after
                    adjustment (else the range runs inline); for_each_n runs serially when
                    maxThreads == 0 and caps at max(maxThreads, 1).
  C48.caller-extra  (shared with C14.tail-after) the calling thread never adds a body invocation on
                    top of maxThreads scheduled ones unless those have completed.
"""
import re
from lib.facts import Pos, const_val, expr_str, is_call, strip_casts, strip_move, subexprs
from lib.rules import comparison_of, local_defs, same_value

LEVEL = "other"
EXPLANATION = __doc__
DRIVERS = ["parfor.cpp", "umbrella.cpp"]
NOT_DECIDED = ["peak concurrency as a number at run time", "work stolen by waiters (documented: a waiting caller may run queued chunks)"]
WHY = "no more than maxThreads body invocations may run at the same time"


def is_min_with(e, vid):
    e = strip_casts(e)
    if isinstance(e, dict) and e.get("k") == "call" and e.get("callee") == "std::min":
        return any(isinstance(strip_casts(a), dict) and strip_casts(a).get("vid") == vid for a in e.get("args", []))
    return False


def only_lowers(fn, vid, rhs, pos):
    """assignment cap = rhs keeps cap <= old cap?"""
    r = strip_casts(rhs)
    if is_min_with(r, vid):
        return True, "min(cap, ...)"
    if isinstance(r, dict) and r.get("k") == "call" and r.get("callee") == "std::max" and len(r.get("args", [])) == 2:
        # max(1, x) with x guarded < cap : still <= cap when cap >= 1
        consts = [const_val(a) for a in r["args"]]
        if 1 in consts:
            other = r["args"][0] if consts[1] == 1 else r["args"][1]
            ok, why = only_lowers(fn, vid, other, pos)
            return ok, "max(1, %s)" % why
    # guarded: dominating guard 'rhs < cap'
    for at, pol, b in fn.guard_atoms(pos):
        c = comparison_of(at, pol, lambda x: isinstance(strip_casts(x), dict) and strip_casts(x).get("vid") == vid)
        if c and c[0] in (">", ">=") and same_value(c[1], r):
            return True, "guarded by %s < cap" % expr_str(r)
    return False, expr_str(r)


def run(R):
    F = R.F
    n = 0
    for q, capname in (("dispenso::detail::adjustChunkSizing", "maxThreads"), ("dispenso::detail::parallel_for_staticImpl", "numThreads"), ("dispenso::for_each_n", "numThreads")):
        for fn in F.functions(qname=q):
            cap = None
            for p in fn.params:
                if p["name"] == capname:
                    cap = p["vid"]
            init_ok = True
            for pos, ev in fn.events():
                if ev.get("k") == "decl" and ev.get("name") == capname:
                    cap = ev["vid"]
                    # initialisation bounded by the user's cap: min(..., maxThreads)
                    i = strip_casts(ev.get("init"))
                    n += 1
                    bounded = False
                    for nn in subexprs(i):
                        if nn.get("k") == "call" and nn.get("callee") == "std::min" and any(isinstance(strip_casts(a), dict) and strip_casts(a).get("name") == "maxThreads" for a in nn.get("args", [])):
                            bounded = True
                    R.ob("C48.cap-monotone", fn, ev, bounded, "%s initialised as %s" % (capname, expr_str(i, 5)), sitekey="init:" + q.split("::")[-1], why=WHY)
            if cap is None:
                continue
            for pos, ev in fn.events():
                if ev.get("k") == "bin" and ev.get("op") == "=" and isinstance(strip_casts(ev.get("l")), dict) and strip_casts(ev.get("l")).get("vid") == cap:
                    n += 1
                    ok, how = only_lowers(fn, cap, ev.get("r"), pos)
                    R.ob("C48.cap-monotone", fn, ev, ok, "%s = %s" % (capname, how) if ok else "%s is replaced by %s, which can exceed the user's cap" % (capname, how), sitekey="assign:" + q.split("::")[-1], why=WHY)
            if q != "dispenso::for_each_n":
                continue
    R.need("C48.cap-monotone", n, 6, "cap initialisations and assignments")

    n = 0
    for fn in F.functions(qname="dispenso::parallel_for"):
        if not (any(p["name"] == "states" for p in fn.params) and any("ChunkedRange" in p.get("type", "") for p in fn.params) and any(p["name"] == "taskSet" for p in fn.params)):
            continue
        for pos, ev in fn.events():
            if ev.get("k") == "decl" and ev.get("name") == "numToLaunch":
                n += 1
                ex = lambda x: strip_casts(fn.expand_expr(x, use_block=pos.b))

                def wait_amount(x):   # options.wait, (options.wait ? 1 : 0), or a named copy of either
                    x = ex(x)
                    if not isinstance(x, dict):
                        return False
                    if x.get("k") == "member" and x.get("fname") == "wait":
                        return True
                    if x.get("k") == "cond":
                        c = strip_casts(x.get("c"))
                        return isinstance(c, dict) and c.get("fname") == "wait" and const_val(x.get("t")) == 1 and const_val(x.get("f")) == 0
                    return False

                def cap_minus_caller(a):
                    a = ex(a)
                    if not (isinstance(a, dict) and a.get("k") == "bin" and a.get("op") == "-"):
                        return False
                    l = ex(a.get("l"))
                    return isinstance(l, dict) and l.get("name") == "maxThreads" and wait_amount(a.get("r"))
                i = ex(ev.get("init"))
                ok = isinstance(i, dict) and i.get("k") == "call" and i.get("callee") == "std::min"
                if ok:
                    ok = any(cap_minus_caller(a) for a in i.get("args", []))
                R.ob("C48.launch-count", fn, ev, ok, "numToLaunch = min(maxThreads - options.wait, N)" if ok else "launched workers not bounded by maxThreads minus the caller: %s" % expr_str(i), sitekey="numToLaunch", why=WHY)
        # serial gate
        disp = [(p, e) for p, e in fn.events() if e.get("k") == "call" and e.get("callee") and re.search(r"parallel_for_(staticImpl|dynamicImpl|adaptiveWaitDispatch|dynamicNoWaitDispatch)$", e["callee"])]
        for p, e in disp:
            n += 1
            g = False
            for at, pol, b in fn.guard_atoms(p):
                c = comparison_of(at, pol, lambda x: isinstance(strip_casts(x), dict) and strip_casts(x).get("name") == "maxThreads")
                if c and ((c[0] == ">=" and const_val(c[1]) == 2) or (c[0] == ">" and const_val(c[1]) == 1)):
                    g = True
            R.ob("C48.serial", fn, e, g, "%s reached only with maxThreads >= 2" % e["name"] if g else "%s reachable with maxThreads < 2" % e["name"], sitekey="gate:" + e["name"], why="maxThreads 0 or 1 means serial execution")
        break
    from lib.rules import counts_under_flag
    for fn in F.functions(qname="dispenso::detail::parallel_for_staticImpl"):
        # the number of chunks handed to the pool is at most numThreads, and at most numThreads - 1
        # when the caller runs a chunk itself (wait) -- evaluated per flag value, whatever the spelling
        nts = [ev["vid"] for _, ev in fn.events() if ev.get("k") == "decl" and ev.get("name") == "numThreads"]
        bulk = [(p, e) for p, e in fn.events() if e.get("k") == "call" and e.get("name") == "scheduleBulk"]
        if not nts or not bulk:
            continue
        n += 1
        is_wait = lambda a: isinstance(a, dict) and a.get("k") == "var" and a.get("name") == "wait" and a.get("vk") == "param"
        verdict = counts_under_flag(fn, nts[0], is_wait)
        ok = bool(verdict[True]) and bool(verdict[False]) and verdict[True] <= {"n-1"} and verdict[False] <= {"n", "n-1"}
        R.ob("C48.launch-count", fn, bulk[0][1], ok, "scheduled = numThreads - 1 with wait, numThreads without" if ok else
             "static path hands the pool a chunk count not bounded by numThreads minus the caller (wait: %s, no wait: %s)" % (sorted(map(str, verdict[True])), sorted(map(str, verdict[False]))),
             sitekey="static-numToSchedule", why=WHY)
        break
    for fn in F.functions(qname="dispenso::for_each_n"):
        if not any(p["name"] == "tasks" for p in fn.params):
            continue
        n += 1
        serial = False
        for b, t in fn.branch_blocks():
            if any(nn.get("k") == "member" and nn.get("fname") == "maxThreads" for nn in subexprs(t["cond"])):
                serial = True
        R.ob("C48.serial", fn, fn.loc, serial, "for_each_n tests options.maxThreads for the serial path" if serial else "for_each_n ignores maxThreads == 0", sitekey="for_each-serial", why="maxThreads 0 means serial execution")
        break
    R.need("C48.launch-count/serial", n, 5, "launch-count and serial-gate sites")

    # caller-extra: same construct as C14.tail-after
    from props import C14
    before = len(R.obs)
    class Proxy:
        pass
    # run only the tail rule of C14 under a C48 instance name
    n0 = 0
    for fn in F.functions(qname="dispenso::parallel_for"):
        if not (any(p["name"] == "states" for p in fn.params) and any("ChunkedRange" in p.get("type", "") for p in fn.params) and any(p["name"] == "taskSet" for p in fn.params)):
            continue
        dispatch = [(p, e) for p, e in fn.events() if e.get("k") == "call" and e.get("callee") and re.search(r"parallel_for_(staticImpl|dynamicImpl|adaptiveWaitDispatch|dynamicNoWaitDispatch)$", e["callee"])]
        for p, e in fn.events():
            if e.get("k") == "call" and e.get("opcall") == "()" and isinstance(strip_casts(e.get("obj")), dict) and strip_casts(e.get("obj")).get("name") == "runTail":
                n0 += 1
                prior = [(dp, de) for dp, de in dispatch if fn.can_reach(dp, p)]
                ok = True
                for dp, de in prior:
                    if de["callee"].endswith("parallel_for_adaptiveWaitDispatch"):
                        continue
                    if not any(pol and isinstance(strip_casts(at), dict) and strip_casts(at).get("fname") == "wait" for at, pol, b in fn.guard_atoms(p)):
                        ok = False
                R.ob("C48.caller-extra", fn, e, ok, "caller-side tail only after the scheduled invocations completed" if ok else "the caller runs an extra body invocation while up to maxThreads scheduled ones may be running", sitekey="runTail-after-" + (prior[0][1]["name"] if prior else "none"), why=WHY)
        break
    R.need("C48.caller-extra", n0, 2, "caller-side tail invocations")
