"""C23 — DistributedRWLock mutual exclusion and progress (rollback / ordering clauses only).

Decided on every CFG path of DistributedRWLockImpl<N> and of the RWLockImpl slots it is made of:
  C23.two-phase    lock() and try_lock(): every slot's writer bit is claimed (setWriteBit /
                   tryWriteBit, ascending slot order) before any slot's readers are drained
                   (waitForReaderDrain); both loops cover all N slots.
  C23.rollback     try_lock(): when claiming slot i fails, exactly the slots [0, i) are unlocked (a loop
                   j < i calling unlock on slot j) and false is returned without draining.
  C23.unlock-all   unlock() releases all N slots; readers select their slot with index & kMask in all
                   three reader entry points.
  C23.slot.*       the per-slot reader-entry / writer / release rules of RWLockImpl (shared with C22):
                   a reader that backed off re-validates the result of its *retry* increment.
"""
from lib import rwlock_rules as rw
from lib.facts import Pos, const_val, expr_str, is_call, strip_casts, subexprs
from lib.rules import comparison_of, natural_loops, same_value

ANCHOR_SOURCES = ["lib/rwlock_rules.py"]
LEVEL = "other"
EXPLANATION = __doc__
NOT_DECIDED = ["mutual exclusion and progress under all interleavings", "thread-to-slot mapping quality"]
CLS = "dispenso::detail::DistributedRWLockImpl"
WHY = "writers take all slots in one global order (bits first, then drain) so two writers cannot deadlock and readers cannot slip in between"


def loop_bound(fn, header):
    t = fn.term(header) or {}
    c = strip_casts(t.get("cond"))
    if isinstance(c, dict) and c.get("k") == "bin" and c.get("op") in ("<", "!="):
        return strip_casts(c.get("l")), strip_casts(fn.expand_expr(c.get("r"), use_block=header))
    return None, None


def run(R):
    F = R.F
    n = 0
    for q in ("lock", "try_lock"):
        for fn in F.functions(qname=CLS + "::" + q):
            claims = [(p, e) for p, e in fn.events() if e.get("k") == "call" and e.get("name") in ("setWriteBit", "tryWriteBit")]
            drains = [(p, e) for p, e in fn.events() if e.get("k") == "call" and e.get("name") == "waitForReaderDrain"]
            n += 1
            ok = bool(claims) and bool(drains) and all(e.get("loop") for _, e in claims + drains)
            det = []
            if ok:
                if any(fn.can_reach(dp, cp) for dp, _ in drains for cp, _ in claims):
                    ok = False
                    det.append("a writer bit can be claimed after a drain has started (phases interleave)")
                if not all(fn.can_reach(cp, dp) for dp, _ in drains for cp, _ in claims):
                    ok = False
                # loop bounds: both loops run i = 0 .. N
                for h, body, tails in natural_loops(fn):
                    if any(p.b in body for p, _ in claims + drains):
                        v, bound = loop_bound(fn, h)
                        import re as _re
                        mN = _re.search(r"DistributedRWLockImpl<(\d+)", fn.raw.get("clsinst", "") or "")
                        N = int(mN.group(1)) if mN else None
                        if not (isinstance(bound, dict) and const_val(bound) is not None and N is not None and const_val(bound) == N):
                            ok = False
                            det.append("a slot loop runs to %s, not to the slot count N = %s: the writer does not claim / drain every sub-lock" % (const_val(bound) if isinstance(bound, dict) else "?", N))
                # slot index is the loop variable (ascending from 0)
                for p, e in claims + drains:
                    idx = None
                    for nn in subexprs(e.get("obj")):
                        if nn.get("k") == "call" and nn.get("opcall") == "[]" or nn.get("k") == "index":
                            idx = strip_casts((nn.get("args") or [nn.get("idx")])[0])
                    if not (isinstance(idx, dict) and idx.get("k") == "var"):
                        ok = False
                        det.append("slot not selected by the loop variable")
            R.ob("C23.two-phase", fn, fn.loc, ok, "; ".join(sorted(set(det))) or "claim all writer bits (0..N) then drain all (0..N)", sitekey=q, why=WHY)
    for fn in F.functions(qname=CLS + "::try_lock"):
        n += 1
        unlocks = [(p, e) for p, e in fn.events() if e.get("k") == "call" and e.get("name") == "unlock"]
        ok = bool(unlocks)
        det = []
        for p, e in unlocks:
            # inside a loop j < i where i is the failing slot's loop variable; guarded by !tryWriteBit
            g = any((not pol) and isinstance(strip_casts(at), dict) and strip_casts(at).get("name") == "tryWriteBit" for at, pol, b in fn.guard_atoms(p))
            if not g:
                ok = False
                det.append("rollback not tied to a failed tryWriteBit")
            bound_ok = False
            for h, body, tails in natural_loops(fn):
                if p.b in body:
                    v, bound = loop_bound(fn, h)
                    # innermost loop: bound must be the outer loop variable (not N, not i+1)
                    if isinstance(bound, dict) and bound.get("k") == "var" and isinstance(v, dict) and v.get("k") == "var" and v.get("vid") != bound.get("vid"):
                        claim_idx = None
                        for cp, ce in fn.events():
                            if ce.get("k") == "call" and ce.get("name") == "tryWriteBit":
                                for nn in subexprs(ce.get("obj")):
                                    if nn.get("k") == "var" and nn.get("vk") == "local":
                                        claim_idx = nn.get("vid")
                        if bound.get("vid") == claim_idx:
                            bound_ok = True
            if not bound_ok:
                ok = False
                det.append("rollback loop does not cover exactly the slots below the failing one")
            # after the rollback: return false, no drain
            path = fn.path_to_exit_avoiding(p, lambda pp, ee: ee.get("k") == "return" and const_val(ee.get("e")) == 0)
            if path is not None:
                ok = False
                det.append("rollback path does not return false")
        R.ob("C23.rollback", fn, unlocks[0][1] if unlocks else fn.loc, ok, "; ".join(sorted(set(det))) or "on failure at slot i: unlock slots [0, i), return false", sitekey="try_lock-rollback", why="a failed try_lock leaves no trace on any slot")
    for fn in F.functions(qname=CLS + "::unlock"):
        n += 1
        unlocks = [(p, e) for p, e in fn.events() if e.get("k") == "call" and e.get("name") == "unlock" and e.get("loop")]
        ok = bool(unlocks)
        for h, body, tails in natural_loops(fn):
            v, bound = loop_bound(fn, h)
            import re as _re
            mN = _re.search(r"DistributedRWLockImpl<(\d+)", fn.raw.get("clsinst", "") or "")
            if not (const_val(bound) is not None and mN and const_val(bound) == int(mN.group(1))):
                ok = False
        R.ob("C23.unlock-all", fn, fn.loc, ok, "all N slots released" if ok else "unlock does not cover all slots", sitekey="unlock", why=WHY)
    for q in ("lock_shared", "unlock_shared", "try_lock_shared"):
        for fn in F.functions(qname=CLS + "::" + q):
            n += 1
            ok = False
            for pos, node in fn.all_nodes():
                if node.get("k") == "bin" and node.get("op") == "&":
                    l, r = strip_casts(node.get("l")), strip_casts(node.get("r"))
                    import re as _re
                    mN = _re.search(r"DistributedRWLockImpl<(\d+)", fn.raw.get("clsinst", "") or "")
                    if isinstance(l, dict) and l.get("name") == "index" and const_val(r) is not None and mN and const_val(r) == int(mN.group(1)) - 1:
                        ok = True
            R.ob("C23.unlock-all", fn, fn.loc, ok, "slot = index & kMask" if ok else "reader slot index is not masked into range", sitekey="mask@" + q, why="any thread-to-slot mapping must land on an existing slot, and lock/unlock must agree")
    R.need("C23.structure", n, 7, "DistributedRWLockImpl functions")
    k = rw.reader_entry(R, F, "C23.slot.reader-entry", "a reader may proceed on a slot only if no writer held it when its count went in")
    k += rw.writer_try(R, F, "C23.slot.writer-try", "a failed try must leave no trace")
    k += rw.release_rules(R, F, "C23.slot.release", "slots are RWLockImpl objects: their release/drain protocol is what exclusive access rests on")
    R.need("C23.slot", k, 8, "RWLockImpl slot rules")
