"""C12 — parallel_for covers each index exactly once (completion and cursor clauses only).

The exact-partition arithmetic is not decidable by this technique. Decided:
  C12.completion   on every dispatch path of parallel_for and its dispatchers on which the wait flag is
                   true, the task set is waited on (directly, or by a dispatcher that does) before the
                   function returns; the global-pool convenience overloads force wait = true before
                   delegating.
  C12.caller-skip  static path with wait: the generator maps scheduler index k to chunk k for k below the
                   caller's reserved chunk c and to k+1 from c on (increment guarded by k >= c), so the
                   scheduled chunks are exactly {0..n-1} minus {c}: no chunk runs twice, none is skipped.
  C12.cursor-width the adaptive path's claim cursor is advanced by an unconditional fetch_add on every
                   claim, also a failing one; it cannot wrap only if it is strictly wider than the
                   index type (compile-time witness for all 8 index types) or the advance is guarded
                   by the bound.
  C12.last-chunk-end in the dynamic-chunk worker loops a chunk end computed as begin + chunkSize is used
                   only for chunks before the last one (the last ends at `end`: no overflow at the
                   index type's maximum).
  C12.serial-range when parallel_for runs the loop on the caller alone, the body gets the caller's
                   whole range (range.start, range.end), not the granularity-trimmed copy.
"""
import re
from lib.facts import Pos, const_val, expr_str, is_call, strip_casts, subexprs
from lib.rules import path_without_wait, atomic_ops, guard_comparisons

LEVEL = "other"
EXPLANATION = __doc__
DRIVERS = ["parfor.cpp", "umbrella.cpp", "witness.cpp"]
NOT_DECIDED = ["that the chunks partition [start, end) exactly (integer arithmetic for all inputs: SMT/proof territory)", "interleavings of claims"]
WAITERS = re.compile(r"^dispenso::detail::(parallel_for_staticImpl|parallel_for_adaptiveWaitDispatch|parallel_for_dynamicImpl|parallel_for_dynamicMultiGroupImpl)$")
WHY = "all invocations must have returned when parallel_for(wait = true) returns"


def is_ts_wait(p, e):
    return e.get("k") == "call" and e.get("name") == "wait" and "TaskSet" in (e.get("cls") or "")


def run(R):
    F = R.F
    n = 0
    for fn in F.fns:
        q = fn.qname
        flag = None
        if q in ("dispenso::detail::parallel_for_staticImpl", "dispenso::detail::parallel_for_dynamicImpl", "dispenso::detail::parallel_for_dynamicMultiGroupImpl"):
            flag = lambda a: isinstance(a, dict) and a.get("k") == "var" and a.get("name") == "wait"
        elif q == "dispenso::detail::parallel_for_adaptiveWaitDispatch":
            flag = lambda a: False
        elif q == "dispenso::parallel_for" and any(p["name"] == "options" for p in fn.params) and any(p["name"] == "states" for p in fn.params) and any("ChunkedRange" in p.get("type", "") for p in fn.params) and any(p["name"] == "taskSet" for p in fn.params):
            flag = lambda a: isinstance(a, dict) and a.get("k") == "member" and a.get("fname") == "wait"
        if flag is None:
            continue
        n += 1
        def waited(p, e):
            if is_ts_wait(p, e):
                return True
            if e.get("k") == "call" and e.get("callee") and WAITERS.match(e["callee"]):
                # a dispatcher that waits itself when handed the same flag / true
                if e["callee"].endswith("adaptiveWaitDispatch"):
                    return True
                args = e.get("args", [])
                return any(flag(strip_casts(a)) or const_val(a) == 1 and a.get("bool") for a in args)
            return False
        path, removed = path_without_wait(fn, flag, waited)
        R.ob("C12.completion", fn, fn.loc, path is None, "every wait = true path waits on the task set" if path is None else "a wait = true path returns without waiting on the task set",
             sitekey=q.split("::")[-1], why=WHY, path=fn.describe_path(path) if path else None)
    R.need("C12.completion", n, 4, "parallel_for and its dispatchers")
    # convenience overloads
    m = 0
    for fn in F.functions(qname="dispenso::parallel_for"):
        if any(p["name"] == "taskSet" for p in fn.params):
            continue
        m += 1
        sets = [(p, e) for p, e in fn.events() if e.get("k") == "bin" and e.get("op") == "=" and isinstance(strip_casts(e.get("l")), dict) and strip_casts(e.get("l")).get("fname") == "wait" and const_val(e.get("r")) == 1]
        calls = [(p, e) for p, e in fn.events() if is_call(e, "dispenso::parallel_for")]
        ok = bool(sets) and bool(calls) and all(fn.dominates(sets[0][0], p) for p, _ in calls)
        R.ob("C12.completion", fn, fn.loc, ok, "options.wait = true before delegating" if ok else "global-pool overload can delegate without forcing wait (its local TaskSet would be destroyed under running chunks)", sitekey="global-overload", why=WHY)
    R.need("C12.completion", m, 2, "global-pool parallel_for overloads")

    # ---- static caller chunk is skipped by the scheduled set ----------------------------------------------
    k = 0
    for fn in F.fns:
        if not (fn.is_lambda and fn.parent is not None and fn.parent.qname == "dispenso::detail::parallel_for_staticImpl"):
            continue
        def inc_target(e):   # ++x, x++, x += 1, x = x + 1  ->  x
            if e.get("k") == "un" and e.get("op") == "++":
                return strip_casts(e.get("e"))
            if e.get("k") == "bin" and e.get("op") == "+=" and const_val(e.get("r")) == 1:
                return strip_casts(e.get("l"))
            if e.get("k") == "bin" and e.get("op") == "=":
                l, r = strip_casts(e.get("l")), strip_casts(e.get("r"))
                if isinstance(r, dict) and r.get("k") == "bin" and r.get("op") == "+" and isinstance(l, dict):
                    a, b2 = strip_casts(r.get("l")), strip_casts(r.get("r"))
                    if (isinstance(a, dict) and a.get("vid") == l.get("vid") and l.get("vid") is not None and const_val(b2) == 1) or \
                       (isinstance(b2, dict) and b2.get("vid") == l.get("vid") and l.get("vid") is not None and const_val(a) == 1):
                        return l
            return None
        incs = [(p, e) for p, e in fn.events() if isinstance(inc_target(e), dict) and inc_target(e).get("name") == "chunkIdx"]
        if not incs:
            continue
        k += 1
        p, e = incs[0]
        vid = inc_target(e).get("vid")
        ok = False
        det = "remap not guarded by a comparison with the caller's chunk"
        from lib.rules import comparison_of
        for at, pol, b in fn.guard_atoms(p):
            c = comparison_of(at, pol, lambda x: isinstance(strip_casts(x), dict) and strip_casts(x).get("vid") == vid)
            if c and isinstance(strip_casts(c[1]), dict) and strip_casts(c[1]).get("name") == "callerChunk":
                det = "chunkIdx %s callerChunk => ++chunkIdx" % c[0]
                ok = c[0] == ">="
        R.ob("C12.caller-skip", fn, e, ok, det, sitekey="static-remap", why="the caller runs chunk c itself; the scheduled chunks must be all the others, each once")
    R.need("C12.caller-skip", k, 1, "static generator remap")

    # ---- cursor width ------------------------------------------------------------------------------------
    guarded = False
    for fn in F.functions(qname="dispenso::detail::stripeClaim"):
        for a in atomic_ops(F, fn):
            if a.op == "fetch_add" and (a.field or "").endswith("StripeCursor::next"):
                for at, pol, b in fn.guard_atoms(a.pos):
                    if any(nn.get("k") == "member" and nn.get("fname") == "end" for nn in subexprs(at)):
                        guarded = True
    types = ["int8_t", "uint8_t", "int16_t", "uint16_t", "int32_t", "uint32_t", "int64_t", "uint64_t"]
    k = 0
    for t in types:
        w = F.witnesses.get("dsa_driver::dsa_w_stripe_wide_" + t)
        s = F.witnesses.get("dsa_driver::dsa_w_index_size_" + t)
        if not w or not s:
            continue
        k += 1
        ok = guarded or w["value"] > s["value"]
        R.ob("C12.cursor-width", None, w["loc"], ok, "StripeCursor<%s>: cursor %d bytes, index %d bytes%s" % (t, w["value"], s["value"], "; advance guarded by the bound" if guarded else "; advance is an unconditional fetch_add"),
             sitekey="cursor:" + t, why="a cursor of the index type's own width wraps when failing claims keep adding chunkSize near the type's maximum: chunks are claimed again / the loop never terminates")
    R.need("C12.cursor-width", k, 8, "StripeCursor width witnesses")
    serial_range(R)
    last_chunk_end(R)


def serial_range(R):
    """C12.serial-range: when parallel_for decides to run the whole loop on the caller (empty parallel
    part, zero-thread pool, nested call, fewer than two usable threads) the body is invoked over the
    caller's *whole* range [range.start, range.end) -- not over the granularity-trimmed copy used
    for the parallel part, which would silently drop the tail."""
    F = R.F
    n = 0
    for fn in F.functions(qname="dispenso::parallel_for"):
        rp = [prm for prm in fn.params if prm.get("name") == "range" and "ChunkedRange" in (prm.get("ctype") or prm.get("type") or "")]
        fp = [prm for prm in fn.params if prm.get("name") == "f"]
        if not rp or not fp or fn.is_lambda:
            continue
        for pos, ev in fn.events():
            if not (ev.get("k") == "call" and ev.get("opcall") == "()" and len(ev.get("args", [])) == 3):
                continue
            o = ev.get("obj")
            while isinstance(o, dict) and o.get("k") in ("cast",) :
                o = o.get("e")
            if not (isinstance(o, dict) and o.get("k") == "var" and o.get("vid") == fp[0]["vid"]):
                continue
            n += 1
            def member_of_range(x, name):
                x = strip_casts(x)
                if not (isinstance(x, dict) and x.get("k") == "member" and x.get("fname") == name):
                    return False
                b = strip_casts(x.get("base"))
                if not (isinstance(b, dict) and b.get("k") == "var"):
                    return False
                if b.get("vid") == rp[0]["vid"]:
                    return True
                # an unmodified member of a local copy of `range` is the same value
                from lib.rules import single_def_value
                d = strip_casts(single_def_value(fn, b)) if b.get("vk") == "local" else None
                while isinstance(d, dict) and d.get("k") == "construct" and d.get("args"):
                    d = strip_casts(d["args"][0])
                if not (isinstance(d, dict) and d.get("k") == "var" and d.get("vid") == rp[0]["vid"]):
                    return False
                for _, we in fn.events():
                    if we.get("k") == "bin" and we.get("op", "").endswith("=") and we.get("op") not in ("==", "!=", "<=", ">="):
                        l = strip_casts(we.get("l"))
                        if isinstance(l, dict) and l.get("k") == "member" and l.get("fname") == name and isinstance(strip_casts(l.get("base")), dict) and strip_casts(l.get("base")).get("vid") == b.get("vid"):
                            return False
                return True
            a, b = ev["args"][1], ev["args"][2]
            ok = member_of_range(a, "start") and member_of_range(b, "end")
            R.ob("C12.serial-range", fn, ev, ok, "serial fallback runs f over [range.start, range.end)" if ok else
                 "serial fallback runs f over [%s, %s), not over the caller's whole range: the indices outside it (the granularity tail) are never visited" % (expr_str(a), expr_str(b)),
                 sitekey="serial-call", why="every index of [start, end) is visited exactly once, whichever dispatch path is taken")
    R.need("C12.serial-range", n, 2, "serial fallbacks in parallel_for")


def last_chunk_end(R):
    """C12.last-chunk-end: in the dynamic-chunk worker loops the end of a chunk is `begin + chunkSize`
    only for chunks that are *not* the last one; the last chunk ends at the range's `end` itself. An
    upper bound that is computed by addition for every chunk (e.g. min(begin + chunkSize, end)) wraps
    for 64-bit index types when the range ends within one chunk of the type's maximum, and the last
    chunk is then invoked with end < begin: its indices are never visited."""
    F = R.F
    n = 0
    for fn in F.fns:
        rq = fn.root_parent().qname
        if rq not in ("dispenso::detail::parallel_for_dynamicImpl", "dispenso::detail::parallel_for_dynamicMultiGroupImpl"):
            continue
        for pos, ev in fn.events():
            if not (ev.get("k") == "call" and ev.get("opcall") == "()" and len(ev.get("args", [])) == 3):
                continue
            o = strip_casts(ev.get("obj"))
            if not (isinstance(o, dict) and o.get("k") == "var" and o.get("name") == "f"):
                continue
            hi = fn.expand_expr(ev["args"][2], use_block=pos.b)
            adds = [x for x in subexprs(hi) if isinstance(x, dict) and x.get("k") == "bin" and x.get("op") == "+" and
                    any(isinstance(y, dict) and y.get("k") == "var" and y.get("name") == "chunkSize" for y in subexprs(x))]
            if not adds:
                continue       # the invocation that ends at `end`
            n += 1
            guarded = False
            for a, pol, _ in fn.guard_atoms(pos):
                aa = strip_casts(a)
                if isinstance(aa, dict) and aa.get("k") == "bin" and aa.get("op") in ("==", "!=", "<", ">=") and any(isinstance(y, dict) and y.get("k") == "var" and y.get("name") == "numChunks" for y in subexprs(aa)) \
                        and any(isinstance(y, dict) and y.get("k") == "bin" and y.get("op") == "+" and const_val(y.get("r")) == 1 for y in subexprs(aa)):
                    if (aa["op"] == "==" and not pol) or (aa["op"] == "!=" and pol) or (aa["op"] == "<" and pol) or (aa["op"] == ">=" and not pol):
                        guarded = True
            R.ob("C12.last-chunk-end", fn, ev, guarded, "the computed chunk end (%s) is used only for chunks before the last one" % expr_str(ev["args"][2]) if guarded else
                 "the chunk end %s is computed by addition for every chunk, including the last: for 64-bit index types it wraps when the range ends within one chunk of the type's maximum" % expr_str(ev["args"][2]),
                 sitekey="dynamic-worker:%s" % rq.split("::")[-1], why="ranges touching the index type's limits are covered exactly once")
    R.need("C12.last-chunk-end", n, 2, "dynamic-chunk worker invocations with a computed end")
