"""C40 — OpResult has optional semantics with balanced lifetimes (storage balance clause).

OpResult<T> keeps a T in raw storage buf_ with ptr_ as the engaged marker. Decided on every CFG path
of every constructor / assignment / emplace / reset / destructor instantiation (K13):
  C40.no-overwrite  ptr_ of an object (this or the other operand) is set to null or re-pointed by a new
                    placement-new only on paths on which that object is known to be empty (fresh
                    storage in a constructor, ptr_ tested null) or on which the engaged object's
                    destructor has just run (directly or through reset()).
  C40.dtor          the destructor destroys the contained object on every path on which ptr_ is non-null.
Abstract state per object: E (may hold a live T) / D (known empty or destroyed), explored exhaustively.
  C40.self-assign   both assignment operators end the life of the held object only under `&oth != this`.
"""
from lib import dataflow
from lib.facts import Pos, const_val, expr_str, normalize_cond, strip_casts, strip_move, subexprs

LEVEL = "other"
EXPLANATION = __doc__
NOT_DECIDED = ["value equality with std::optional", "whether a moved-from source stays engaged (std::optional) or is emptied (OpResult): both balance lifetimes"]
PTR = "dispenso::detail::OpResult::ptr_"
WHY = "every contained object that is constructed must be destroyed exactly once"


def base_key(e):
    e = strip_casts(e)
    if not isinstance(e, dict):
        return None
    if e.get("k") == "this":
        return "this"
    if e.get("k") == "var":
        return "var:%s" % e.get("vid")
    if e.get("k") == "un" and e.get("op") == "*":
        return base_key(e.get("e"))
    return None


def ptr_base(e):
    """if e is <base>.ptr_ return base key"""
    e = strip_casts(e)
    if isinstance(e, dict) and e.get("k") == "member" and e.get("field") == PTR:
        return base_key(e.get("base"))
    return None


def run(R):
    F = R.F
    n = 0
    for fn in F.functions(cls="dispenso::detail::OpResult"):
        nm = fn.qname.split("::")[-1]
        if nm in ("operator(conv)", "has_value", "value"):
            continue
        is_ctor = bool(fn.raw.get("ctor"))
        n += 1

        def get(st, k):
            return dict(st).get(k, "D" if (is_ctor and k == "this") else "E")

        def setk(st, k, v):
            d = dict(st)
            d[k] = v
            return tuple(sorted(d.items()))

        def transfer(pos, ev, st):
            k = ev.get("k")
            # destructor of the contained object
            if (k == "call" and ev.get("dtorcall")) or k == "pseudodtor":
                b = ptr_base(ev.get("obj") if k == "call" else ev.get("base"))
                if b:
                    return setk(st, b, "D")
            if k == "call" and ev.get("name") == "reset" and ev.get("cls") == "dispenso::detail::OpResult":
                b = base_key(ev.get("obj"))
                if b:
                    return setk(st, b, "D")
            tgt = None
            rhs = None
            if k == "bin" and ev.get("op") == "=":
                tgt, rhs = ptr_base(ev.get("l")), ev.get("r")
            if k == "init" and ev.get("field") == PTR:
                tgt, rhs = "this", ev.get("init")
            if tgt:
                if get(st, tgt) == "E":
                    who = "the other operand" if tgt != "this" else "this object"
                    raise dataflow.Violation("ptr_ of %s is overwritten while it may still hold a live object (that object's destructor never runs)" % who)
                has_new = any(nn.get("k") == "new" for nn in subexprs(rhs)) if isinstance(rhs, dict) else False
                return setk(st, tgt, "E" if has_new else "D")
            return st

        def refine(cond, pol, st, b):
            a, p = normalize_cond(cond, pol)
            parts = [(a, p)]
            out = st
            for c, q in parts:
                c = strip_casts(c)
                if not isinstance(c, dict):
                    continue
                kb = ptr_base(c)
                if kb is None and c.get("k") == "call" and c.get("name") in ("operator(conv)", "has_value") and c.get("cls") == "dispenso::detail::OpResult":
                    kb = base_key(c.get("obj"))
                if kb is not None:
                    if not q:
                        out = setk(out, kb, "D")
            return out

        vios, stats = dataflow.run(fn, (), transfer, refine, None)
        R.paths_enumerated += stats["state_block_pairs"]
        if not vios:
            R.ob("C40.no-overwrite", fn, fn.loc, True, "%d (block,state) pairs: ptr_ only written over empty/destroyed storage" % stats["state_block_pairs"], sitekey=nm, why=WHY)
        for v in vios:
            R.ob("C40.no-overwrite", fn, (v["ev"] or {}).get("loc") or fn.loc, False, v["msg"], sitekey=nm, why=WHY, path=fn.describe_path(v["trail"][-8:]))
    R.need("C40.no-overwrite", n, 7, "OpResult constructors / assignments / emplace / reset")

    nd = 0
    for fn in F.functions(qname="dispenso::detail::OpResult::(dtor)"):
        nd += 1
        removed = set()
        for b, t in fn.branch_blocks():
            if ptr_base(t["cond"]) == "this":
                removed.add((b, 1))
        def destroys(p, e):
            return ((e.get("k") == "call" and e.get("dtorcall")) or e.get("k") == "pseudodtor") and ptr_base(e.get("obj") if e.get("k") == "call" else e.get("base")) == "this"
        path = fn.path_to_exit_avoiding(Pos(fn.entry, -1), destroys, removed_edges=removed)
        R.ob("C40.dtor", fn, fn.loc, path is None and bool(removed), "destroys the contained object whenever ptr_ is non-null" if path is None else "an engaged OpResult can be destroyed without destroying its object", sitekey="dtor", why=WHY)
    R.need("C40.dtor", nd, 1, "OpResult destructor")
    self_assign_rule(R)


def self_assign_rule(R):
    """C40.self-assign: in both assignment operators everything that ends the life of the object held by
    *this (its destructor, emplace(), reset()) happens only after `&oth != this` was established:
    `x = x` on an engaged OpResult must leave the value alone (std::optional semantics); without the
    guard the value is destroyed and then re-created from its own dead storage."""
    F = R.F
    n = 0
    for fn in F.functions(qname="dispenso::detail::OpResult::operator="):
        prm = [p for p in fn.params if "OpResult" in (p.get("type") or "")]
        if not prm or "Tracked" not in (fn.raw.get("clsinst") or fn.display):
            continue
        ov = prm[0]["vid"]
        kills = []
        for p, e in fn.events():
            if ((e.get("k") == "call" and e.get("dtorcall")) or e.get("k") == "pseudodtor") and ptr_base(e.get("obj") if e.get("k") == "call" else e.get("base")) == "this":
                kills.append((p, e))
            if e.get("k") == "call" and e.get("name") in ("emplace", "reset") and e.get("cls") == "dispenso::detail::OpResult" and base_key(e.get("obj")) == "this":
                kills.append((p, e))
        n += 1
        def is_self_test(a):
            a = strip_casts(a)
            if not (isinstance(a, dict) and a.get("k") == "bin" and a.get("op") in ("==", "!=")):
                return None
            sides = [strip_casts(a.get("l")), strip_casts(a.get("r"))]
            has_this = any(isinstance(x, dict) and x.get("k") == "this" for x in sides)
            has_addr = any(isinstance(x, dict) and x.get("k") == "un" and x.get("op") == "&" and isinstance(strip_casts(x.get("e")), dict) and strip_casts(x.get("e")).get("vid") == ov for x in sides)
            return a.get("op") if (has_this and has_addr) else None
        bad = None
        for p, e in kills:
            guarded = False
            for a, pol, _ in fn.guard_atoms(p):
                op = is_self_test(a)
                if op and ((op == "==" and not pol) or (op == "!=" and pol)):
                    guarded = True
            if not guarded:
                bad = e
        R.ob("C40.self-assign", fn, bad or fn.loc, bad is None and bool(kills), "the held object is only destroyed / replaced after `&oth != this`" if bad is None and kills else
             "the held object can be destroyed (%s) when `oth` is *this: self-assignment of an engaged OpResult destroys the value and rebuilds it from dead storage" % ((bad or {}).get("name") or "destructor"),
             sitekey="operator=:%s" % ("move" if "&&" in (prm[0].get("type") or "") else "copy"), why="optional semantics: self-assignment leaves the value untouched")
    R.need("C40.self-assign", n, 2, "OpResult assignment operators")
