"""C09 — pool shutdown and resize always complete (handshake clause).

Decided on every CFG path:
  C09.stop-wake-join  in ~ThreadPool and resizeLocked: every PerThreadData::stop() is followed by
                      PoolWakeState::wakeAll(), and no thread is joined before that wakeAll().
  C09.wake-bumps-all  PoolWakeState::wakeAll: every iteration of the loop over the wake groups bumps
                      that group's epoch (bump / bumpAndWake*), whether or not its sleep mask shows a
                      sleeper: a worker between its running() check and its park has no mask bit yet
                      and only the changed epoch keeps it from sleeping through the stop.
  C09.no-refresh      threadLoopImpl: on no path from the loop's running() test to waitOnThread() is
                      the epoch the worker will wait on re-read (no assignment to that local, no
                      EpochWaiter::current()): a refreshed epoch would match the bumped one and the
                      worker would park after the stop.
  C09.wait-compare    EpochWaiter::wait/waitFor hand the kernel the value just compared with the
                      expected epoch (loaded with acquire immediately before), and waitOnThread
                      passes its epoch argument through unchanged.
  C09.orders          running_ is stored with release and loaded with acquire; epoch bumps are
                      read-modify-writes of order >= acq_rel.
"""
import re
from lib.facts import Pos, const_val, expr_str, is_call, order_at_least, strip_casts, strip_move, subexprs
from lib.rules import (atomic_ops, block_has, comparison_of, field_name, is_atomic_node, iteration_avoiding, lvalue_path,
                       natural_loops, same_value, unwrap_assign)

LEVEL = "other"
EXPLANATION = __doc__
NOT_DECIDED = ["progress of the kernel futex", "poll-mode timing", "the interleaving argument itself (why the epoch handshake suffices)"]
BUMPS = re.compile(r"^dispenso::detail::EpochWaiter::(bump|bumpAndWake|bumpAndWakeAll|bumpAndWakeN)$")
EPOCH = "dispenso::detail::EpochWaiter::epoch_"
WHY = "destruction, resize() and setSignalingWake() must not depend on the sleep backstop to get a worker to notice the stop"


def run(R):
    F = R.F
    # ---- stop -> wakeAll -> join -----------------------------------------------------------------
    n = 0
    for q in ("dispenso::ThreadPool::(dtor)", "dispenso::ThreadPool::resizeLocked"):
        for fn in F.functions(qname=q):
            stops = [(p, e) for p, e in fn.events() if is_call(e, "dispenso::ThreadPool::PerThreadData::stop")]
            wakes = [(p, e) for p, e in fn.events() if is_call(e, "dispenso::detail::PoolWakeState::wakeAll")]
            joins = [(p, e) for p, e in fn.events() if is_call(e, "std::thread::join")]
            n += 1
            ok = bool(stops) and bool(wakes) and bool(joins)
            det = []
            if ok:
                isw = lambda p, e: is_call(e, "dispenso::detail::PoolWakeState::wakeAll")
                # the wake is legitimately skipped only when there is no wake state at all (a pool
                # that never had threads): ignore the 'wake-state pointer is null' edge
                null_edges = set()
                for wp, we in wakes:
                    obj = strip_casts(we.get("obj"))
                    for at, pol, b in fn.guard_atoms(wp):
                        # `if (ws)`, `if (ws != nullptr)`, `if (!ws) ... else`, `if (ws == nullptr) ... else`
                        c = comparison_of(at, pol, lambda x: isinstance(strip_casts(x), dict) and strip_casts(x).get("k") == "var" and isinstance(obj, dict) and strip_casts(x).get("vid") == obj.get("vid"))
                        if c and c[0] == "!=" and (const_val(c[1]) == 0 or (isinstance(strip_casts(c[1]), dict) and strip_casts(c[1]).get("k") == "null")):
                            null_edges.add((b, 1 if pol else 0))
                for sp, se in stops:
                    for jp, je in joins:
                        path = fn.path_to_exit_avoiding(sp, isw, include_noreturn=True, targets=lambda p, e, jp=jp: p == jp, removed_edges=null_edges)
                        if path is not None:
                            # allowed only if the wake is skipped because there is no wake state (ws == nullptr)
                            ok = False
                            det.append("a thread can be joined after stop() without an intervening wakeAll()")
                    if any(fn.can_reach(wp, sp) for wp, _ in wakes):
                        ok = False
                        det.append("stop() after wakeAll(): the woken worker may not see the flag")
            R.ob("C09.stop-wake-join", fn, wakes[0][1] if wakes else fn.loc, ok, "; ".join(sorted(set(det))) or "stop all -> wakeAll -> join",
                 sitekey="order", why=WHY)
    R.need("C09.stop-wake-join", n, 2, "~ThreadPool and resizeLocked")

    # ---- wakeAll bumps every group --------------------------------------------------------------------
    n = 0
    for fn in F.functions(qname="dispenso::detail::PoolWakeState::wakeAll"):
        loops = natural_loops(fn)
        for h, body, tails in loops:
            n += 1
            path = iteration_avoiding(fn, h, body, lambda b: block_has(fn, b, lambda p, e: is_call(e, BUMPS)))
            R.ob("C09.wake-bumps-all", fn, (fn.term(h) or {}).get("loc") or fn.loc, path is None,
                 "every iteration bumps the group's epoch" if path is None else "an iteration can skip the epoch bump (e.g. for a group whose sleep mask is empty)",
                 sitekey="group-loop", why="a worker past its running() check but not yet parked is invisible in the sleep mask", path=fn.describe_path(path) if path else None)
    R.need("C09.wake-bumps-all", n, 1, "group loop in PoolWakeState::wakeAll")

    # ---- no epoch refresh between the running() test and the wait ------------------------------------------
    n = 0
    for fn in F.functions(qname="dispenso::ThreadPool::threadLoopImpl"):
        waits = [(p, e) for p, e in fn.events() if is_call(e, "dispenso::ThreadPool::waitOnThread")]
        for wp, we in waits:
            n += 1
            ep = strip_casts(we["args"][1]) if len(we.get("args", [])) > 1 else None
            if not (isinstance(ep, dict) and ep.get("k") == "var"):
                R.ob("C09.no-refresh", fn, we, False, "the epoch handed to waitOnThread is not a local variable: %s" % expr_str(ep), sitekey="waitOnThread", why=WHY)
                continue
            vid = ep["vid"]
            running = lambda p, e: e.get("k") == "call" and e.get("name") == "running"
            bad = []
            for p, e in fn.events():
                refresh = False
                if e.get("k") == "bin" and e.get("op") == "=" and strip_casts(e.get("l")).get("vid") == vid:
                    r = strip_casts(e.get("r"))
                    if not (isinstance(r, dict) and r.get("sid") == we.get("sid")):
                        refresh = True
                if is_call(e, "dispenso::detail::EpochWaiter::current") and e.get("loop"):
                    refresh = True
                if refresh and fn.path_to_exit_avoiding(p, running, include_noreturn=True, targets=lambda pp, ee: pp == wp) is not None:
                    bad.append(e.get("loc", "?"))
            R.ob("C09.no-refresh", fn, we, not bad, "the waited-on epoch is only ever the value returned by the previous wait (or read before the loop)" if not bad else
                 "epoch re-read at %s can reach waitOnThread() without passing the running() test again" % ",".join(bad), sitekey="waitOnThread", why=WHY)
    R.need("C09.no-refresh", n, 2, "waitOnThread call in threadLoopImpl<true/false>")

    # ---- futex compare value -----------------------------------------------------------------------------------
    n = 0
    for q in ("dispenso::detail::EpochWaiter::wait", "dispenso::detail::EpochWaiter::waitFor"):
        for fn in F.functions(qname=q):
            expected = fn.params[0]["vid"] if fn.params else None
            for p, e in fn.events():
                if is_call(e, "dispenso::detail::futex") and len(e.get("args", [])) > 2:
                    opv = const_val(e["args"][1])
                    if opv is None or (opv & 0x7f) != 0:
                        continue
                    n += 1
                    cmpv = strip_casts(e["args"][2])
                    ok = False
                    det = "futex compare value %s" % expr_str(cmpv)
                    for at, pol, b in fn.guard_atoms(p):
                        c = strip_casts(at)
                        if isinstance(c, dict) and c.get("k") == "bin" and c.get("op") in ("==", "!="):
                            eq = (c["op"] == "==") == pol
                            for side, other in ((c.get("l"), c.get("r")), (c.get("r"), c.get("l"))):
                                v, tgt = unwrap_assign(side)
                                o = strip_casts(other)
                                if eq and is_atomic_node(F, fn, v, EPOCH, ("load",)) and order_at_least(v["atomic"]["orders"][0], "acquire") \
                                        and isinstance(o, dict) and o.get("vid") == expected:
                                    # compare value must be the expected epoch or the variable just loaded (equal on this edge)
                                    if (isinstance(cmpv, dict) and (cmpv.get("vid") == expected or (tgt is not None and same_value(tgt, cmpv)))):
                                        ok = True
                                        det += " == the epoch just loaded (acquire) and found equal to the expected one"
                    R.ob("C09.wait-compare", fn, e, ok, det, sitekey="futex-wait", why="FUTEX_WAIT must compare against the epoch the caller decided to sleep on, else a bump in between is missed")
    for fn in F.functions(qname="dispenso::ThreadPool::waitOnThread"):
        ep = fn.params[1]["vid"] if len(fn.params) > 1 else None
        for p, e in fn.events():
            if is_call(e, "dispenso::detail::EpochWaiter::waitFor") or is_call(e, "dispenso::detail::EpochWaiter::wait"):
                n += 1
                a0 = strip_casts(e["args"][0]) if e.get("args") else None
                ok = isinstance(a0, dict) and a0.get("vid") == ep
                R.ob("C09.wait-compare", fn, e, ok, "passes its epoch parameter through" if ok else "waits on %s instead of the caller's epoch" % expr_str(a0), sitekey="passthrough", why=WHY)
    R.need("C09.wait-compare", n, 3, "futex waits and the waitOnThread pass-through")

    # ---- orders ---------------------------------------------------------------------------------------------------
    n = 0
    for fn in F.fns:
        if fn.qname in ("dispenso::ThreadPool::PerThreadData::stop", "dispenso::ThreadPool::PerThreadData::running"):
            for a in atomic_ops(F, fn):
                if (a.field or "").endswith("::running_"):
                    n += 1
                    want = "release" if a.is_write and not a.is_read else "acquire"
                    R.ob("C09.orders", fn, a.node, order_at_least(a.success_order, want), "running_.%s [%s]" % (a.op, a.success_order), sitekey="running_:" + a.op, why="the stop flag must be visible to the woken worker")
        if BUMPS.match(fn.qname):
            for a in atomic_ops(F, fn):
                if a.field == EPOCH:
                    n += 1
                    R.ob("C09.orders", fn, a.node, a.is_rmw and order_at_least(a.success_order, "acq_rel"), "epoch_.%s [%s]" % (a.op, a.success_order), sitekey="epoch:" + fn.qname.split("::")[-1], why="the bump orders the stop flag before the wake")
    R.need("C09.orders", n, 6, "running_ and epoch_ operations")
