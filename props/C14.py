"""C14 — parallel_for never uses one state object concurrently (state-exclusivity clauses).

Decided on every instantiation of the stateful parallel_for and its dispatchers:
  C14.index-match  static path: every body invocation f(*it, b, e) takes its state from the iterator
                   advanced by the *same index* that selects its chunk bounds (chunks have distinct
                   indices, so states are distinct); dynamic / adaptive paths: scheduled workers use
                   the generator index (< count) and the caller uses index == that same count.
  C14.tail-after   any body invocation on states.begin() made by the calling thread outside the chunk
                   dispatch (the granularity tail, the serial fallbacks) happens either before any
                   work was scheduled, or where all scheduled work has completed: under
                   options.wait == true after the waiting dispatcher returned. In the no-wait dynamic
                   path the tail runs in the exit action of the last worker to leave
                   (guarded by the exit-counter equality).
  C14.init-first   initStates(...) dominates every use of states.begin() in parallel_for, and is
                   called with a count whose lower bound is 1 on the serial paths.
"""
import re
from lib.facts import Pos, const_val, expr_str, is_call, strip_casts, strip_move, subexprs
from lib.rules import comparison_of, guard_comparisons, lower_bound, same_value

LEVEL = "other"
EXPLANATION = __doc__
DRIVERS = ["parfor.cpp", "umbrella.cpp"]
NOT_DECIDED = ["interleavings", "that distinct indices address distinct container elements (std::advance on the user's container)"]
WHY = "a state element may be used by at most one body invocation at a time, also for the granularity tail and with wait = false"


def advanced_by(fn, it_vid):
    """the index expression given to std::advance(it, idx) for iterator variable it_vid"""
    for p, e in fn.events():
        if is_call(e, "std::advance") and e.get("args"):
            a0 = strip_casts(e["args"][0])
            if isinstance(a0, dict) and a0.get("vid") == it_vid:
                return p, e["args"][1]
    return None, None


def run(R):
    F = R.F
    n = 0
    # ---- static path: state index == chunk index -------------------------------------------------------
    for fn in F.fns:
        root = fn.root_parent()
        if root.qname != "dispenso::detail::parallel_for_staticImpl":
            continue
        # (1) the generator lambda: chunkRange(X) and advance(stateIt, X)
        if fn.is_lambda and fn.parent is root:
            cr = [(p, e) for p, e in fn.events() if e.get("k") == "call" and e.get("opcall") == "()" and isinstance(strip_casts(e.get("obj")), dict) and strip_casts(e.get("obj")).get("name") == "chunkRange"]
            adv = [(p, e) for p, e in fn.events() if is_call(e, "std::advance")]
            if cr and adv:
                n += 1
                ok = same_value(cr[0][1]["args"][0], adv[0][1]["args"][1])
                R.ob("C14.index-match", fn, adv[0][1], ok, "worker: bounds chunkRange(%s), state advance(%s)" % (expr_str(cr[0][1]["args"][0]), expr_str(adv[0][1]["args"][1])), sitekey="static-worker", why=WHY)
        if fn is root:
            cr = [(p, e) for p, e in fn.events() if e.get("k") == "call" and e.get("opcall") == "()" and isinstance(strip_casts(e.get("obj")), dict) and strip_casts(e.get("obj")).get("name") == "chunkRange"]
            adv = [(p, e) for p, e in fn.events() if is_call(e, "std::advance")]
            if cr and adv:
                n += 1
                ok = same_value(cr[0][1]["args"][0], adv[0][1]["args"][1])
                R.ob("C14.index-match", fn, adv[0][1], ok, "caller: bounds chunkRange(%s), state advance(%s)" % (expr_str(cr[0][1]["args"][0]), expr_str(adv[0][1]["args"][1])), sitekey="static-caller", why=WHY)
                # the scheduled set skips the caller's chunk: generator remaps indices >= callerChunk
    # ---- dynamic / adaptive: caller index == scheduled count -------------------------------------------------
    for q in ("dispenso::detail::parallel_for_dynamicImpl", "dispenso::detail::parallel_for_adaptiveWaitDispatch", "dispenso::detail::parallel_for_dynamicMultiGroupImpl"):
        for fn in F.functions(qname=q):
            bulk = [(p, e) for p, e in fn.events() if e.get("k") == "call" and e.get("name") == "scheduleBulk"]
            adv = [(p, e) for p, e in fn.events() if is_call(e, "std::advance")]
            if not bulk or not adv:
                continue
            n += 1
            cnt = bulk[0][1]["args"][0]
            ok = all(same_value(strip_casts(a["args"][1]), strip_casts(cnt)) or any(same_value(nn, strip_casts(strip_casts(cnt).get("e") if strip_casts(cnt).get("k") == "cast" else cnt)) for nn in subexprs(a["args"][1]) if nn.get("k") == "var")
                     for _, a in adv)
            R.ob("C14.index-match", fn, adv[0][1], ok, "workers use indices < %s, caller uses index %s" % (expr_str(cnt), expr_str(adv[0][1]["args"][1])), sitekey=q.split("::")[-1] + "-caller", why=WHY)
    R.need("C14.index-match", n, 4, "state/chunk index pairs")

    # ---- tail and serial uses of states.begin() in parallel_for ------------------------------------------------------
    n = 0
    WAITING = ("parallel_for_adaptiveWaitDispatch",)
    for fn in F.functions(qname="dispenso::parallel_for"):
        if not (any(p["name"] == "states" for p in fn.params) and any("ChunkedRange" in p.get("type", "") for p in fn.params) and any(p["name"] == "taskSet" for p in fn.params)):
            continue
        tail_lambda = None
        for ch in fn.children():
            if any(nn.get("k") == "call" and nn.get("name") == "begin" for _, nn in ch.all_nodes()) and any(e.get("k") == "call" and e.get("opcall") == "()" for _, e in ch.events()):
                tail_lambda = ch
        dispatch = [(p, e) for p, e in fn.events() if e.get("k") == "call" and e.get("callee") and re.search(r"parallel_for_(staticImpl|dynamicImpl|adaptiveWaitDispatch|dynamicNoWaitDispatch)$", e["callee"])]
        for p, e in fn.events():
            if e.get("k") == "call" and e.get("opcall") == "()" and isinstance(strip_casts(e.get("obj")), dict) and strip_casts(e.get("obj")).get("name") == "runTail":
                n += 1
                prior = [(dp, de) for dp, de in dispatch if fn.can_reach(dp, p)]
                ok = True
                det = []
                for dp, de in prior:
                    if de["callee"].endswith(WAITING):
                        continue
                    g = any(pol and isinstance(strip_casts(at), dict) and strip_casts(at).get("fname") == "wait" for at, pol, b in fn.guard_atoms(p))
                    if not g:
                        ok = False
                        det.append("tail runs on states.begin() after %s without options.wait: scheduled chunks may still be using that state" % de["name"])
                R.ob("C14.tail-after", fn, e, ok, "; ".join(det) or "tail runs only after the waiting dispatch completed", sitekey="runTail-after-" + (prior[0][1]["name"] if prior else "none"), why=WHY)
        # init first
        inits = [(p, e) for p, e in fn.events() if is_call(e, "dispenso::detail::initStates")]
        uses = [(p, e) for p, e in fn.events() if e.get("k") == "call" and e.get("opcall") == "()" and isinstance(strip_move(e.get("obj")), dict) and strip_move(e.get("obj")).get("name") == "f"]
        for p, e in uses:
            n += 1
            dom = [ie for ip, ie in inits if fn.dominates(ip, p)]
            lb = lower_bound(F, fn, dom[0]["args"][2]) if dom else None
            R.ob("C14.init-first", fn, e, bool(dom) and lb is not None and lb >= 1, "serial body call preceded by initStates(..., %s)" % (expr_str(dom[0]["args"][2]) if dom else "-"), sitekey="serial-init", why="the states container must end up with at least one element before states.begin() is dereferenced")
        break
    for fn in F.fns:
        if fn.is_lambda and fn.parent is not None and fn.parent.qname == "dispenso::detail::parallel_for_dynamicNoWaitDispatch":
            calls = [(p, e) for p, e in fn.events() if e.get("k") == "call" and e.get("opcall") == "()" and isinstance(strip_casts(e.get("obj")), dict) and strip_casts(e.get("obj")).get("name") == "tailFunc"]
            for p, e in calls:
                n += 1
                g = False
                for at, pol, b in fn.guard_atoms(p):
                    a = strip_casts(at)
                    if pol and isinstance(a, dict) and a.get("k") == "bin" and a.get("op") == "==" and any(nn.get("name") == "lastExit" for nn in subexprs(a)):
                        g = True
                R.ob("C14.tail-after", fn, e, g, "no-wait tail runs only in the exit action of the last worker (cur == lastExit)" if g else "no-wait tail not tied to the last worker's exit", sitekey="nowait-tail", why=WHY)
            break
    R.need("C14.tail-after/init-first", n, 4, "tail and serial sites")
