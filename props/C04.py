"""C04 — cancelled task sets start no further task bodies.

Decided (every CFG path of every instantiation in the parsed units):
  C04.body-guard   every site where a task-set scheduling function or a packaged task starts a user
                   body (f(), gen(i)()) is dominated by a branch edge on which the set's cancel flag
                   was read false (canceled() / canceled_.load()), evaluated in the same loop
                   iteration when the site is in a bulk loop; for the shared helper invokeInline the
                   obligation moves to each of its call sites.
  C04.cancel-writers  canceled_ is written only by cancel(), trySetCurrentException() and the
                   parent-cascade constructor, always with the value true and order >= release.
  C04.cascade      cancel() stores the flag and then calls cancelChildren() on every path;
                   cancelChildren() holds mtx_ while walking and cancels every child; the cascade
                   constructor registers with the parent *before* it samples the parent's flag.
Not decided: the value wait() returns; races between cancel() and a body that has already passed
its check (the property allows bodies that "have already started").
"""
import re
from lib.facts import Pos, const_val, expr_str, is_call, order_at_least, strip_casts, subexprs
from lib.rules import (atomic_ops, body_invocations, callers_of, field_name, guard_in_same_iteration,
                       is_atomic_node, lvalue_path)

LEVEL = "other"
EXPLANATION = __doc__
NOT_DECIDED = ["the value returned by wait()/tryWait() after cancellation", "a body that passed its cancel check before cancel() was called"]
CANCELED = "dispenso::TaskSetBase::canceled_"
SCOPE = re.compile(r"^dispenso::(TaskSet|ConcurrentTaskSet)::schedule|^dispenso::TaskSetBase::(invokeInline|scheduleBulkImpl|packageTask)")
HELPERS = ("dispenso::TaskSetBase::invokeInline",)
WHY = "once cancel() has been called no body that has not started may run, whether it would be queued or run inline"


def cancel_guard(F, fn, pos, ev):
    """(ok, description) - is the site guarded by 'cancel flag read false' in the same iteration."""
    seen = []
    for atom, pol, b in fn.guard_atoms(pos):
        a = strip_casts(atom)
        hit = False
        if isinstance(a, dict) and a.get("k") == "call":
            if a.get("name") == "canceled" and a.get("callee", "").startswith("dispenso::"):
                hit = True
            elif is_atomic_node(F, fn, a, CANCELED, ("load", "operator(conv)")):
                hit = True
        if hit:
            same = guard_in_same_iteration(fn, ev, b)
            seen.append("%s is %s%s" % (expr_str(a), "true" if pol else "false", "" if same else " (outside the loop iteration)"))
            if not pol and same:
                return True, "; ".join(seen)
    return False, "; ".join(seen) or "no dominating read of the cancel flag"


def run(R):
    F = R.F
    nsites = 0
    helper_sites = 0
    for fn in F.fns:
        root = fn.root_parent()
        if not SCOPE.search(root.qname):
            continue
        # lambdas inside scheduleBulkImpl* only *generate* packaged tasks (they return them)
        for pos, ev, var, via in body_invocations(fn):
            nsites += 1
            key = "%s%s()" % (var.get("name") or var.get("fname"), "(i)" if via else "")
            if fn.qname in HELPERS:
                # obligation moves to the callers
                cs = callers_of(F, "^" + re.escape(fn.qname) + "$")
                if not cs:
                    R.ob("C04.body-guard", fn, ev, False, "helper %s has no call site in the parsed units" % fn.qname, sitekey=key, why=WHY)
                for cfn, cpos, cev in cs:
                    helper_sites += 1
                    ok, det = cancel_guard(F, cfn, cpos, cev)
                    R.ob("C04.body-guard", cfn, cev, ok, "call of %s (which runs %s): %s" % (fn.qname.split("::")[-1], key, det),
                         sitekey="call:" + fn.qname.split("::")[-1], why=WHY)
                continue
            ok, det = cancel_guard(F, fn, pos, ev)
            R.ob("C04.body-guard", fn, ev, ok, "%s: %s" % (key, det), sitekey=key, why=WHY)
    R.need("C04.body-guard", nsites, 8, "user-body invocation sites in task-set scheduling functions and packaged tasks")
    R.need("C04.body-guard", helper_sites, 2, "call sites of invokeInline")

    # ---- who may write canceled_ ------------------------------------------------------------
    allowed = {"dispenso::TaskSetBase::cancel", "dispenso::TaskSetBase::trySetCurrentException", "dispenso::TaskSetBase::(ctor)"}
    nw = 0
    for fn in F.fns:
        for a in atomic_ops(F, fn):
            if a.field != CANCELED or not a.is_write:
                continue
            nw += 1
            val = const_val(a.node["args"][0]) if a.node.get("args") else None
            ok = fn.qname in allowed and val == 1 and order_at_least(a.success_order, "release")
            R.ob("C04.cancel-writers", fn, a.node, ok, "%s(%s) [%s] in %s" % (a.op, val, a.success_order, fn.qname),
                 sitekey="write:canceled_", why="the flag only ever goes from false to true, set by cancel(), a captured exception, or a cancelled parent")
    R.need("C04.cancel-writers", nw, 3, "writes of TaskSetBase::canceled_")

    # ---- cascade ------------------------------------------------------------------------------
    n = 0
    for fn in F.functions(qname="dispenso::TaskSetBase::cancel"):
        stores = [a for a in atomic_ops(F, fn) if a.field == CANCELED and a.is_write]
        for st in stores:
            n += 1
            path = fn.path_to_exit_avoiding(st.pos, lambda p, e: is_call(e, "dispenso::TaskSetBase::cancelChildren"))
            R.ob("C04.cascade", fn, st.node, path is None, "cancel() reaches cancelChildren() on every path" if path is None else "a path skips cancelChildren()",
                 sitekey="cancel->children", why="cancellation must reach child sets created with ParentCascadeCancel::kOn",
                 path=fn.describe_path(path) if path else None)
    for fn in F.functions(qname="dispenso::TaskSetBase::cancelChildren"):
        calls = fn.calls("dispenso::TaskSetBase::cancel")
        locks = [(p, e) for p, e in fn.events() if e.get("k") == "decl" and "lock_guard" in e.get("type", "")]
        n += 1
        ok = bool(calls) and bool(locks) and all(fn.dominates(locks[0][0], p) for p, _ in calls) and all(e.get("loop") for _, e in calls)
        R.ob("C04.cascade", fn, fn.loc, ok, "child->cancel() called in a loop under lock_guard(mtx_)" if ok else "children are not all cancelled under mtx_",
             sitekey="children-loop", why="every registered child must be cancelled; the list is guarded by mtx_")
    for fn in F.functions(qname="dispenso::TaskSetBase::(ctor)"):
        reg = fn.calls("dispenso::TaskSetBase::registerChild")
        samp = [(p, e) for p, e in fn.events() if is_call(e, "dispenso::TaskSetBase::canceled")]
        if not reg and not samp:
            continue
        n += 1
        ok = bool(reg) and bool(samp) and all(fn.dominates(reg[0][0], p) for p, _ in samp)
        R.ob("C04.cascade", fn, fn.loc, ok, "registerChild() precedes the sample of parent->canceled()" if ok else "parent state sampled before registering (a cancel in between is lost)",
             sitekey="ctor-register-then-sample", why="register with the parent first, then copy its state: a cancel between the two is delivered through the list")
    R.need("C04.cascade", n, 3, "cancel / cancelChildren / cascade constructor")
