"""C26 — TimedTask run count, cancellation and teardown (handshake + gate clauses).

Decided on every CFG path:
  C26.announce     TimedTaskScheduler::kickOffTask: every invocation of the task's func is dominated by
                   the announcement inProgress++ (an RAII object whose destructor decrements on every
                   exit) and then by a load of the flags that found 'cancelled' clear: announce first,
                   then check (the destructor cancels first, then checks inProgress).
  C26.teardown     ~TimedTask: the only paths that skip the teardown are 'no impl' and 'detached'
                   (flags & kFFlagsDetached, nothing else -- in particular not 'already cancelled',
                   since an invocation may still be running); otherwise cancel() precedes the spin on
                   inProgress == 0, which precedes clearing func.
  C26.run-count    func is invoked only when the fetch_sub(1) on timesToRun returned >= 1 and the task
                   is re-queued only when it returned > 1; a user function returning false stores
                   timesToRun = 0 and sets the cancelled flag.
  C26.flags-monotone every write to TimedTaskImpl::flags, anywhere, is a fetch_or (bits are only set).
"""
from lib.facts import Pos, const_val, expr_str, is_call, order_at_least, strip_casts, subexprs
from lib.rules import atomic_ops, comparison_of, field_name, lvalue_path

LEVEL = "other"
EXPLANATION = __doc__
NOT_DECIDED = ["'never before its first scheduled time' (clock)", "the data race between a pool-side 'func = {}' after a false return and the scheduler's next invocation (observation, DESIGN.md section 7)"]
IMPL = "dispenso::detail::TimedTaskImpl"
KDETACHED, KCANCELLED = 1, 2
WHY = "a non-detached TimedTask's destructor may return only when no invocation is in progress and none can start"


def func_calls(fn):
    out = []
    for p, e in fn.events():
        if e.get("k") == "call" and e.get("opcall") == "()":
            o = strip_casts(e.get("obj"))
            if isinstance(o, dict) and o.get("k") == "member" and o.get("field") == IMPL + "::func":
                out.append((p, e))
    return out


def run(R):
    F = R.F
    n = 0
    for fn in F.functions(qname="dispenso::TimedTaskScheduler::kickOffTask"):
        calls = func_calls(fn)
        ann = [(p, e) for p, e in fn.events() if e.get("k") == "decl" and "InProgress" in e.get("type", "")]
        for p, e in calls:
            n += 1
            ok = bool(ann) and fn.dominates(ann[0][0], p)
            det = []
            if not ok:
                det.append("func invoked without a prior inProgress announcement")
            else:
                chk = False
                for at, pol, b in fn.guard_atoms(p):
                    a = strip_casts(at)
                    if (not pol) and isinstance(a, dict) and a.get("k") == "bin" and a.get("op") == "&" and const_val(a.get("r")) == KCANCELLED:
                        ld = [nn for nn in subexprs(a.get("l")) if nn.get("k") == "call" and "atomic" in nn]
                        from lib.rules import event_pos_of
                        lp = event_pos_of(fn, ld[0]) if ld else None
                        if ld and lp is not None and fn.dominates(ann[0][0], lp) and order_at_least(ld[0]["atomic"]["orders"][0], "seq_cst"):
                            chk = True
                if not chk:
                    ok = False
                    det.append("no seq_cst check of the cancelled flag between the announcement and the invocation")
                dts = [pp for pp, ee in fn.events() if ee.get("k") == "autodtor" and ee.get("vid") == ann[0][1].get("vid")]
                if fn.path_to_exit_avoiding(ann[0][0], lambda pp, ee: pp in dts) is not None:
                    ok = False
                    det.append("announcement not withdrawn on every exit")
            R.ob("C26.announce", fn, e, ok, "; ".join(det) or "inProgress++ (RAII) -> cancelled? -> func(...)", sitekey="func()", why=WHY)
    for g in [f for f in F.fns if f.qname.endswith("kickOffTask::InProgress::(ctor)") or f.qname.endswith("kickOffTask::InProgress::(dtor)")]:
        n += 1
        ops = [a for a in atomic_ops(F, g) if (a.field or "").endswith("::inProgress")]
        want = "fetch_add" if g.qname.endswith("(ctor)") else "fetch_sub"
        R.ob("C26.announce", g, g.loc, len(ops) == 1 and ops[0].op == want, "%s: inProgress.%s" % (g.qname.split("::")[-1], ops[0].op if ops else "-"), sitekey="InProgress" + g.qname.split("::")[-1], why=WHY)
    R.need("C26.announce", n, 4, "func invocations in kickOffTask and the InProgress guard")

    n = 0
    for fn in F.functions(qname="dispenso::TimedTask::(dtor)"):
        cancels = [(p, e) for p, e in fn.events() if e.get("k") == "call" and e.get("name") == "cancel"]
        spins = [a for a in atomic_ops(F, fn) if (a.field or "").endswith("::inProgress") and a.op == "load"]
        clears = [(p, e) for p, e in fn.events() if e.get("k") == "call" and e.get("opcall") == "=" and isinstance(strip_casts(e.get("obj")), dict) and strip_casts(e.get("obj")).get("field") == IMPL + "::func"]
        n += 1
        ok = bool(cancels) and bool(spins) and bool(clears) and fn.dominates(cancels[0][0], spins[0].pos) and fn.dominates(spins[0].pos, clears[0][0])
        # the clear is reached only on the spin's 'zero' edge
        if ok:
            ok = any((not pol) and isinstance(strip_casts(at), dict) and strip_casts(at).get("sid") == spins[0].node["sid"] for at, pol, b in fn.guard_atoms(clears[0][0]))
        R.ob("C26.teardown", fn, fn.loc, ok, "cancel() -> spin until inProgress == 0 -> func = {}" if ok else "destructor order is not cancel -> drain -> clear", sitekey="order", why=WHY)
        # early exits
        for p, e in fn.events():
            if e.get("k") == "return" and not any(fn.dominates(cp, p) for cp, _ in cancels):
                n += 1
                masks = []
                null_ok = False
                for at, pol, b in fn.guard_atoms(p):
                    pass
                # the early return is under a disjunction; examine the branch conditions that can lead to it
                for b, t in fn.branch_blocks():
                    for nn in subexprs(t["cond"]):
                        if nn.get("k") == "bin" and nn.get("op") == "&" and any(x.get("k") == "call" and "atomic" in x for x in subexprs(nn.get("l"))):
                            masks.append(const_val(nn.get("r")))
                    # flags first loaded into a local
                for pp, ee in fn.events():
                    for nn in subexprs(ee):
                        if nn.get("k") == "bin" and nn.get("op") == "&" and const_val(nn.get("r")) is not None and const_val(nn.get("r")) < 16 and const_val(nn.get("r")) not in masks:
                            masks.append(const_val(nn.get("r")))
                bad = [m for m in masks if m is not None and (m & ~KDETACHED)]
                R.ob("C26.teardown", fn, e, not bad and bool(masks), "teardown is skipped only for a detached task (flag mask %s)" % masks if not bad else
                     "teardown is also skipped when flags & %s: a cancelled task may still have an invocation in progress" % bad, sitekey="early-return", why=WHY)
    R.need("C26.teardown", n, 2, "TimedTask destructor")

    n = 0
    for fn in F.functions(qname="dispenso::TimedTaskScheduler::kickOffTask"):
        subs = [a for a in atomic_ops(F, fn) if (a.field or "").endswith("::timesToRun") and a.op == "fetch_sub"]
        rv = None
        for p, e in fn.events():
            if e.get("k") == "decl" and subs and isinstance(e.get("init"), dict) and strip_casts(e["init"]).get("sid") == subs[0].node["sid"]:
                rv = e["vid"]
        for p, e in func_calls(fn):
            n += 1
            ok = False
            for at, pol, b in fn.guard_atoms(p):
                c = comparison_of(at, pol, lambda x: isinstance(strip_casts(x), dict) and strip_casts(x).get("vid") == rv)
                if c and ((c[0] == "==" and const_val(c[1]) == 1) or (c[0] == ">" and const_val(c[1]) in (0, 1)) or (c[0] == ">=" and const_val(c[1]) == 1)):
                    ok = True
            R.ob("C26.run-count", fn, e, ok and rv is not None, "invoked only when the remaining count was >= 1" if ok else "func can be invoked with no runs remaining", sitekey="gate", why="the function is invoked at most timesToRun times")
        pushes = [(p, e) for p, e in fn.events() if e.get("k") == "call" and e.get("name") == "push"]
        for p, e in pushes:
            n += 1
            ok = False
            for at, pol, b in fn.guard_atoms(p):
                c = comparison_of(at, pol, lambda x: isinstance(strip_casts(x), dict) and strip_casts(x).get("vid") == rv)
                if c and ((c[0] == ">" and const_val(c[1]) == 1) or (c[0] == ">=" and const_val(c[1]) == 2)):
                    ok = True
            R.ob("C26.run-count", fn, e, ok, "re-queued only when more than one run remained" if ok else "task re-queued although no runs remain", sitekey="requeue", why="no further invocations after the last scheduled one")
    for fn in F.fns:
        if fn.is_lambda and fn.root_parent().qname == IMPL + "::(ctor)":
            calls = [(p, e) for p, e in fn.events() if e.get("k") == "call" and e.get("opcall") == "()" and isinstance(strip_casts(e.get("obj")), dict) and strip_casts(e.get("obj")).get("name") == "f"]
            if not calls:
                continue
            n += 1
            stores = [a for a in atomic_ops(F, fn) if (a.field or "").endswith("::timesToRun") and a.op == "store" and const_val(a.node["args"][0]) == 0]
            sid = calls[0][1]["sid"]
            ok = bool(stores) and any((not pol) and isinstance(strip_casts(at), dict) and strip_casts(at).get("sid") == sid for at, pol, b in fn.guard_atoms(stores[0].pos))
            cb = calls[0][0][0]
            if not ok and any(x is None for x in fn.blocks[cb]["succs"]):
                # the compiler folded `!f()` for this instantiation (a functor that provably always
                # returns the same value: clang prunes the dead edge). Always-true functor: nothing
                # to stop; always-false functor: the store must simply follow the call.
                ok = (not stores) or fn.dominates(calls[0][0], stores[0].pos)
                R.ob("C26.run-count", fn, calls[0][1], ok, "functor's result is a compile-time constant in this instantiation; %s" % ("no false return exists" if not stores else "the stop-store follows the call unconditionally"), sitekey="false-return-const", why="no further invocation after the function returns false")
                continue
            R.ob("C26.run-count", fn, calls[0][1], ok, "a false return stores timesToRun = 0" if ok else "a false return does not stop further runs", sitekey="false-return", why="no further invocation after the function returns false")
    R.need("C26.run-count", n, 4, "run-count gates")
    flags_monotone(R)


def flags_monotone(R):
    """C26.flags-monotone: the task's flag word carries Cancelled and Detached bits that are only ever
    *set*. Every write to it, anywhere, is a fetch_or: a store / exchange / fetch_and (e.g. detach()
    written as flags.store(kDetached)) erases a Cancelled bit that cancel() or a false return set, and
    an invocation that was already handed to a pool then runs after cancel() has returned."""
    F = R.F
    FLAGS = "dispenso::detail::TimedTaskImpl::flags"
    n = 0
    for fn in F.fns:
        if not fn.qname.startswith("dispenso::"):
            continue
        for a in atomic_ops(F, fn):
            if a.field == FLAGS and a.is_write:
                n += 1
                ok = a.op == "fetch_or"
                R.ob("C26.flags-monotone", fn, a.node, ok, "flags.%s in %s" % (a.op, fn.qname.split("::")[-1]) if ok else
                     "flags.%s in %s overwrites the flag word: a Cancelled bit that is already set is lost" % (a.op, fn.qname.split("::")[-1]),
                     sitekey="%s@%s" % (a.op, fn.root_parent().qname.split("::")[-1]), why="the function is never started after cancel() has returned or after it returned false")
    R.need("C26.flags-monotone", n, 3, "writes to TimedTaskImpl::flags")
