"""C24 — AsyncRequest delivers each update at most once (payload exclusivity clause).

Decided on every CFG path of every AsyncRequest<T> instantiation:
  C24.claim-first  every access to the payload obj_ is dominated by the success edge of a
                   compare-exchange on state_ that moves the request into a state no other party can
                   leave (a plain load grants nothing when several producers / consumers are allowed),
                   and the CAS has order >= acquire;
  C24.release-after every such access is followed on every path by a release store to state_ (the
                   hand-back), so the next party's acquiring CAS sees the payload;
  C24.transitions  requestUpdate moves only kNone -> kNeedsUpdate; tryEmplaceUpdate claims only
                   kNeedsUpdate; getUpdate claims only kReady.
"""
from lib.facts import Pos, const_val, expr_str, order_at_least, strip_casts, subexprs
from lib.rules import atomic_ops, is_atomic_node, field_name, lvalue_path

LEVEL = "other"
EXPLANATION = __doc__
NOT_DECIDED = ["linearizability of request/emplace/get histories", "that getUpdate returns the value of the latest emplace (value property)"]
STATE = "dispenso::AsyncRequest::state_"
OBJ = "dispenso::AsyncRequest::obj_"
WHY = "with multiple producers and consumers only an atomic claim of the state word makes the payload access exclusive"
K = {"kNone": 0, "kNeedsUpdate": 1, "kUpdating": 2, "kReady": 3}


def run(R):
    F = R.F
    n = 0
    ntr = 0
    for fn in F.functions(cls="dispenso::AsyncRequest"):
        ops = atomic_ops(F, fn)
        cas = [a for a in ops if a.field == STATE and a.op.startswith("compare_exchange")]
        stores = [a for a in ops if a.field == STATE and a.op == "store"]
        seen = set()
        for pos, node in fn.all_nodes():
            if node.get("k") == "member" and node.get("field") == OBJ:
                if pos in seen:
                    continue
                seen.add(pos)
                n += 1
                claimed = [c for c in cas if order_at_least(c.success_order, "acquire") and
                           any(pol and isinstance(strip_casts(at), dict) and strip_casts(at).get("sid") == c.node["sid"] for at, pol, b in fn.guard_atoms(pos))]
                R.ob("C24.claim-first", fn, node.get("loc") or (fn.event_at(pos) or {}).get("loc") or fn.loc, bool(claimed),
                     "obj_ accessed only after winning compare_exchange on state_" if claimed else "obj_ accessed without an atomic claim of state_ (a load == kReady lets two consumers move the same value)",
                     sitekey="obj_@" + fn.qname.split("::")[-1], why=WHY)
                rel = {s.pos for s in stores if order_at_least(s.success_order, "release")}
                path = fn.path_to_exit_avoiding(pos, lambda p, e: p in rel)
                R.ob("C24.release-after", fn, node.get("loc") or (fn.event_at(pos) or {}).get("loc") or fn.loc, path is None,
                     "followed by a release store to state_ on every path" if path is None else "payload access not followed by a release hand-back", sitekey="obj_@" + fn.qname.split("::")[-1], why=WHY)
        # transitions: expected value of each CAS is initialised from a constant
        want = {"requestUpdate": (K["kNone"], K["kNeedsUpdate"]), "tryEmplaceUpdate": (K["kNeedsUpdate"], K["kUpdating"]), "getUpdate": (K["kReady"], None)}
        nm = fn.qname.split("::")[-1]
        if nm in want and cas:
            for c in cas:
                ntr += 1
                exp = strip_casts(c.node["args"][0])
                newv = const_val(c.node["args"][1])
                init = None
                for p, e in fn.events():
                    if e.get("k") == "decl" and isinstance(exp, dict) and e.get("vid") == exp.get("vid"):
                        init = const_val(e.get("init"))
                ok = init == want[nm][0] and (want[nm][1] is None or newv == want[nm][1]) and (nm != "getUpdate" or newv not in (K["kNone"], K["kNeedsUpdate"], K["kReady"]))
                R.ob("C24.transitions", fn, c.node, ok, "%s: CAS %s -> %s" % (nm, init, newv), sitekey="cas@" + nm, why="each operation may only claim the state it is entitled to")
    R.need("C24.claim-first", n, 2, "payload accesses in AsyncRequest methods")
    R.need("C24.transitions", ntr, 3, "state transitions")
