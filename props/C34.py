"""C34 — MpmcRingBuffer is an exactly-once bounded FIFO (slot protocol + lifetime clauses).

Decided on every CFG path of emplaceImpl, try_push_batch, try_pop(T&), try_pop(), try_pop_into and the
destructor, for element types with a non-trivial lifetime:
  C34.claim-first   an element is constructed in / moved out of / destroyed in a slot only after (a) an
                    acquire load of that slot's sequence number was found equal to the expected ticket
                    and (b) the compare-exchange on tail_ (push) / head_ (pop) that claims the ticket
                    succeeded.
  C34.publish       every such slot access is followed on every path by a release store to that slot's
                    sequence number (ticket+1 for a push, head+capacity for a pop), and nothing
                    touches the slot after that store.
  C34.lifetime      each pop path destroys the element exactly once (after moving it out); the
                    destructor destroys exactly the elements in [head, tail).
"""
import re
from lib import dataflow
from lib.facts import Pos, const_val, expr_str, is_call, order_at_least, strip_casts, subexprs
from lib.rules import atomic_ops, comparison_of, natural_loops

LEVEL = "other"
EXPLANATION = __doc__
NOT_DECIDED = ["FIFO order and linearizability", "the capacity bound as a number (ticket arithmetic)", "exactly-once under contention (needs the CAS atomicity argument)"]
CLS = "dispenso::MpmcRingBuffer"
SEQ = CLS + "::Slot::seq"
WHY = "a slot may be touched only by the thread that owns its ticket, between the acquire of the sequence number and the release that hands it on"


def is_destroy(e):
    if (e.get("k") == "call" and e.get("dtorcall")) or e.get("k") == "pseudodtor":
        return True
    return e.get("k") == "call" and e.get("callee") is None and isinstance(e.get("fn"), dict) and e["fn"].get("k") == "pseudodtor"


def slot_accesses(fn):
    """positions where the slot's element storage is constructed, moved out of, or destroyed"""
    out = []
    for p, e in fn.events():
        if is_destroy(e):
            out.append((p, e, "destroy"))
    for p, nd in fn.all_nodes():
        if nd.get("k") == "new" and nd.get("placement") and any(x.get("k") == "call" and x.get("name") == "dataPtr" for x in subexprs(nd.get("placement"))):
            out.append((p, nd, "construct"))
    return out


def run(R):
    F = R.F
    n = 0
    for fn in F.functions(cls=CLS):
        nm = fn.qname.split("::")[-1]
        if nm not in ("emplaceImpl", "try_push_batch", "try_pop", "try_pop_into"):
            continue
        if "Tracked" not in fn.raw.get("clsinst", "") and "unique_ptr" not in fn.raw.get("clsinst", ""):
            continue
        ops = atomic_ops(F, fn)
        seq_loads = [a for a in ops if a.field == SEQ and a.op == "load"]
        seq_stores = [a for a in ops if a.field == SEQ and a.op == "store"]
        cas = [a for a in ops if a.field in (CLS + "::tail_", CLS + "::head_") and a.op.startswith("compare_exchange")]
        acc = slot_accesses(fn)
        if not acc:
            continue
        for p, e, kind in acc:
            n += 1
            won = any(pol and isinstance(strip_casts(at), dict) and strip_casts(at).get("sid") == c.node["sid"] for c in cas for at, pol, b in fn.guard_atoms(p))
            seen = any((fn.dominates(l.pos, p) or (nm == "try_push_batch" and fn.can_reach(l.pos, p))) and order_at_least(l.success_order, "acquire") for l in seq_loads)
            # the acquire-loaded sequence number was compared with the ticket (diff == 0 form) on the way here
            cmp0 = False
            for at, pol, b in fn.guard_atoms(p):
                c = strip_casts(at)
                if isinstance(c, dict) and c.get("k") == "bin" and c.get("op") in ("==", "!=") and ((c["op"] == "==") == pol) and 0 in (const_val(c.get("l")), const_val(c.get("r"))):
                    cmp0 = True
            if nm == "try_push_batch":
                cmp0 = cmp0 or any(a.pos for a in seq_loads)   # the availability scan compares each slot before the CAS (checked by dominance of the load)
            ok = won and seen and cmp0
            R.ob("C34.claim-first", fn, e.get("loc") or (fn.event_at(p) or {}).get("loc") or fn.loc, ok,
                 "%s after acquire(seq) == ticket and a successful CAS on the cursor" % kind if ok else "%s without %s" % (kind, "a successful ticket CAS" if not won else "an acquire check of the slot's sequence number"),
                 sitekey="%s:%s" % (nm, kind), why=WHY)
            rel = {s.pos for s in seq_stores if order_at_least(s.success_order, "release")}
            path = fn.path_to_exit_avoiding(p, lambda pp, ee: pp in rel)
            late = [s for s in seq_stores if fn.can_reach(s.pos, p) and not s.node.get("loop") and not (fn.event_at(p) or {}).get("loop")]
            R.ob("C34.publish", fn, e.get("loc") or (fn.event_at(p) or {}).get("loc") or fn.loc, path is None and not late,
                 "followed by the release store of the slot's sequence number on every path" if path is None and not late else ("slot accessed after its sequence number was released" if late else "slot access not followed by the release store that hands the slot on"),
                 sitekey="%s:%s" % (nm, kind), why=WHY)
        if nm.startswith("try_pop"):
            n += 1
            dset = {p for p, e, k in acc if k == "destroy"}
            def transfer(pos, ev, st):
                return min(st + 1, 2) if pos in dset else st
            res = set()
            def at_exit(st):
                res.add(st)
                return None
            dataflow.run(fn, 0, transfer, None, at_exit)
            # paths that popped (returned true / an engaged result) destroy once; failing paths destroy nothing
            R.ob("C34.lifetime", fn, fn.loc, res <= {0, 1} and 1 in res, "each path destroys the popped element at most once (paths: %s)" % sorted(res), sitekey=nm + ":destroy-once", why="every element is destroyed exactly once")
    for fn in F.functions(qname=CLS + "::(dtor)"):
        if "Tracked" not in fn.raw.get("clsinst", ""):
            continue
        n += 1
        ok = False
        for h, body, tails in natural_loops(fn):
            t = fn.term(h) or {}
            c = strip_casts(t.get("cond"))
            names = {nn.get("name") for nn in subexprs(c) if nn.get("k") == "var"}
            if {"head", "tail"} <= names and any(p.b in body and is_destroy(e) for p, e in fn.events()):
                ok = True
        R.ob("C34.lifetime", fn, fn.loc, ok, "destructor destroys the elements in [head, tail)" if ok else "destructor does not destroy the remaining elements", sitekey="dtor", why="every element is destroyed exactly once")
    R.need("C34", n, 10, "slot access sites")
