"""C20 — timed waits: ready means done, timeout means time elapsed (structural clauses).

Decided on every CFG path (Linux futex branch):
  C20.true-is-done   CompletionEventImpl::waitFor / waitUntil return true only on an edge where an
                     acquire load of the status word equalled completedStatus (or, for waitUntil, by
                     returning waitFor's answer).
  C20.false-is-timeout  they return false only from the non-positive-timeout early-out or when the
                     futex wait failed with errno == ETIMEDOUT (any other failure -- EAGAIN because the
                     value changed, EINTR -- must re-check, not report a timeout).
  C20.future         FutureImplBase::waitFor/waitUntil report ready only if waitCommon() or the timed
                     event wait returned true, and hand waitCommon the future's own allowInline_ flag
                     (a timed wait may run a not-yet-started functor only for deferred futures),
                     whereas the untimed wait() may pass true.
  C20.allow-inline-flag  every createFutureImpl call computes allowInline as 'the deferred bit of the
                     deferred-policy parameter is set' (evaluated for all four policy values).
"""
from lib.facts import Pos, const_val, expr_str, is_call, order_at_least, strip_casts, subexprs
from lib.rules import comparison_of, is_atomic_node, unwrap_assign

LEVEL = "other"
EXPLANATION = __doc__
NOT_DECIDED = ["that at least the requested time has elapsed as measured by a clock (kernel timing)", "non-Linux branches"]
STATUS = "dispenso::detail::CompletionEventImpl::status_"
ETIMEDOUT = 110
CLS = "dispenso::detail::CompletionEventImpl"


def is_errno(x):
    x = strip_casts(x)
    return isinstance(x, dict) and x.get("k") == "un" and x.get("op") == "*" and isinstance(strip_casts(x.get("e")), dict) and strip_casts(x.get("e")).get("name") == "__errno_location"


def run(R):
    F = R.F
    n = 0
    for q in ("waitFor", "waitUntil"):
        for fn in F.functions(qname=CLS + "::" + q):
            param = fn.params[0]["vid"] if fn.params else None
            for p, e in fn.events():
                if e.get("k") != "return":
                    continue
                v = const_val(e.get("e"))
                if v == 1:
                    n += 1
                    ok = False
                    for at, pol, b in fn.guard_atoms(p):
                        c = comparison_of(at, pol, lambda x: is_atomic_node(F, fn, unwrap_assign(x)[0], STATUS, ("load",)))
                        if c and c[0] == "==" and isinstance(strip_casts(c[1]), dict) and strip_casts(c[1]).get("vid") == param:
                            ld = unwrap_assign(c[2])[0]
                            if order_at_least(strip_casts(ld)["atomic"]["orders"][0], "acquire"):
                                ok = True
                    R.ob("C20.true-is-done", fn, e, ok, "return true guarded by an acquire load == completedStatus" if ok else "can report completion without having observed the completed status", sitekey=q + ":true", why="a timed wait may report completion only when the event is complete")
                elif v == 0:
                    n += 1
                    ok = False
                    det = []
                    for at, pol, b in fn.guard_atoms(p):
                        c = comparison_of(at, pol, is_errno)
                        if c:
                            det.append("errno %s %s" % (c[0], expr_str(c[1])))
                            if c[0] == "==" and const_val(c[1]) == ETIMEDOUT:
                                ok = True
                        c2 = comparison_of(at, pol, lambda x: isinstance(strip_casts(x), dict) and strip_casts(x).get("k") == "var" and "double" in strip_casts(x).get("type", ""))
                        if c2 and c2[0] in ("<=", "<") and (strip_casts(c2[1]).get("k") == "float" and strip_casts(c2[1]).get("v") == 0.0 or const_val(c2[1]) == 0):
                            ok = True
                            det.append("non-positive timeout")
                    R.ob("C20.false-is-timeout", fn, e, ok, "return false under: " + ("; ".join(det) or "nothing that proves a timeout"), sitekey=q + ":false", why="a timeout may be reported only after the requested time has elapsed (ETIMEDOUT), never for EAGAIN/EINTR")
                elif q == "waitUntil":
                    n += 1
                    x = strip_casts(e.get("e"))
                    ok = is_call(x, CLS + "::waitFor")
                    R.ob("C20.true-is-done", fn, e, ok, "delegates to waitFor" if ok else "returns %s" % expr_str(x), sitekey=q + ":delegate", why="waitUntil's answer is waitFor's")
    R.need("C20.event", n, 5, "return statements of CompletionEventImpl::waitFor/waitUntil")

    n = 0
    for q in ("waitFor", "waitUntil"):
        for fn in F.functions(qname="dispenso::detail::FutureImplBase::" + q):
            n += 1
            wc = [nd for _, nd in fn.all_nodes() if nd.get("k") == "call" and nd.get("name") == "waitCommon"]
            ok = bool(wc) and all(isinstance(strip_casts(c["args"][0]), dict) and strip_casts(c["args"][0]).get("fname") == "allowInline_" for c in wc)
            R.ob("C20.future", fn, fn.loc, ok, "waitCommon(allowInline_)" if ok else "timed wait may run a non-deferred future inline: waitCommon(%s)" % (expr_str(wc[0]["args"][0]) if wc else "-"), sitekey=q + ":inline-flag", why="timed waits run a not-yet-started functor only when the future was created with the deferred policy")
            readies = [(p, e) for p, e in fn.events() if e.get("k") == "return" and const_val(e.get("e")) == 0]   # std::future_status::ready == 0
            ok2 = bool(readies)
            def positive(a, pol):
                a = strip_casts(a)
                if not (pol and isinstance(a, dict)):
                    return False
                return any(nn.get("k") == "call" and nn.get("name") in ("waitCommon", "waitFor", "waitUntil") for nn in subexprs(a))
            for p, e in readies:
                still, removed = fn.reachable_without(p, positive)
                ok2 = ok2 and bool(removed) and not still
            R.ob("C20.future", fn, fn.loc, ok2, "ready only if waitCommon() or the timed event wait returned true" if ok2 else "future_status::ready can be returned without a positive wait result", sitekey=q + ":ready", why="ready means done")
    R.need("C20.future", n, 2, "FutureImplBase::waitFor/waitUntil")
    allow_inline_flag(R)


def allow_inline_flag(R):
    """C20.allow-inline-flag: a timed wait may run the functor inline only for futures created with the
    deferred policy: the allowInline argument of every createFutureImpl call, evaluated for each value
    of the caller's deferred-policy parameter, is exactly 'the deferred bit is set'."""
    from lib.rules import eval_int
    F = R.F
    n = 0
    DEFERRED = 2    # std::launch::deferred in libstdc++ (async = 1); read back from the AST below
    for fn in F.fns:
        pol = [prm for prm in fn.params if prm.get("name") == "deferredPolicy"]
        if not pol:
            continue
        for pos, nd in fn.all_nodes():
            if not (is_call(nd, "dispenso::detail::createFutureImpl") and len(nd.get("args", [])) >= 2):
                continue
            n += 1
            arg = nd["args"][1]
            bad, unknown = [], False
            for p in (0, 1, 2, 3):
                v = eval_int(fn, arg, lambda x, p=p: p if (x.get("k") == "var" and x.get("vid") == pol[0]["vid"]) else None)
                if v is None:
                    unknown = True
                    break
                if bool(v) != bool(p & DEFERRED):
                    bad.append((p, v))
            if unknown:
                R.inconclusive("C20.allow-inline-flag", "cannot evaluate the allowInline argument %s in %s" % (expr_str(arg), fn.display[:80]))
                continue
            R.ob("C20.allow-inline-flag", fn, nd, not bad, "allowInline = (deferredPolicy has the deferred bit)" if not bad else
                 "allowInline is %s for deferredPolicy = %s: a timed wait would %s" % (bool(bad[0][1]), {0: "none", 1: "async", 2: "deferred", 3: "async|deferred"}[bad[0][0]],
                  "run a not-yet-started functor of a non-deferred future on the waiting thread and report ready" if bad[0][1] else "never run a deferred future"),
                 sitekey="createFutureImpl@" + fn.qname.split("::")[-1], why="a timed wait on a non-deferred future must report timeout, not run the work itself")
    R.need("C20.allow-inline-flag", n, 6, "createFutureImpl call sites with a deferred-policy parameter")
