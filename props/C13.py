"""C13 — parallel_for honours the granularity contract (congruence clauses).

With granularity g > 1 and no explicit chunk size, every chunk boundary handed to the body must be
start + k*g or the range end. Decided by a small congruence evaluation (multiple of g / start-relative
multiple / definitely-not / unknown) of the expressions that produce boundaries and strides:
  C13.trim        computeGranularity: trimmedEnd = end - (size % g).
  C13.adaptive    ChunkedRange::calcChunkSize: on the g > 1 path the adaptive chunk size that is
                  returned is a multiple of g for *every* g (a bit-mask round-up is only correct for
                  powers of two and is classified definitely-not).
  C13.static      staticChunkSizeGranular: ceilChunkSize is a multiple of g; StaticChunkMapper places
                  chunk starts at rangeStart + multiples, with strides chunkSize / smallChunk that the
                  static dispatcher makes multiples (smallChunk = chunkSize - g).
  C13.stripes     initStripeState: every interior stripe boundary is start + (multiple of g) (an
                  absolute multiple alignDown(end, g) is not, unless start happens to be one); stripes
                  are claimed in steps of the (multiple) chunk size from the stripe start.
An expression the evaluator cannot classify makes the obligation inconclusive (exit 2), never a violation.
"""
import re
from lib.congruence import Cong
from lib.facts import Pos, const_val, expr_str, is_call, strip_casts, subexprs
from lib.rules import comparison_of, local_defs

LEVEL = "other"
EXPLANATION = __doc__
DRIVERS = ["parfor.cpp", "umbrella.cpp"]
NOT_DECIDED = ["chunk sizes as numbers", "exact partition of the range (C12/C17)", "explicit chunk sizes (contract is vacuous)"]
WHY = "interior chunk boundaries must be granularity multiples relative to the range start; only the last chunk may end at the untrimmed range end"


def gpred_names(*names):
    def p(e):
        e = strip_casts(e)
        return isinstance(e, dict) and ((e.get("k") == "var" and e.get("name") in names) or (e.get("k") == "member" and e.get("fname") in names))
    return p


def classify(R, inst, fn, ev, val, want, what, sitekey):
    if val is None:
        R.inconclusive(inst, "%s in %s: cannot classify %s" % (sitekey, fn.where(), what))
        return
    R.ob(inst, fn, ev, val == want, "%s is %s" % (what, {"A": "a multiple of g", "R": "start + a multiple of g", "N": "not guaranteed to be a multiple of g"}[val]), sitekey=sitekey, why=WHY)


def run(R):
    F = R.F
    # ---- trim -----------------------------------------------------------------------------------------
    n = 0
    for fn in F.functions(qname="dispenso::detail::computeGranularity"):
        for pos, ev in fn.events():
            if ev.get("k") == "bin" and ev.get("op") == "=" and strip_casts(ev.get("l")).get("name") == "trimmedEnd":
                n += 1
                r = strip_casts(ev.get("r"))
                ok = False
                if isinstance(r, dict) and r.get("k") == "bin" and r.get("op") == "-":
                    sub = strip_casts(r.get("r"))
                    if isinstance(sub, dict) and sub.get("k") == "var":
                        d = [x for x in local_defs(fn, sub["vid"]) if x[2] == "decl"]
                        if d:
                            dd = strip_casts(d[0][1])
                            ok = isinstance(dd, dict) and dd.get("k") == "bin" and dd.get("op") == "%" and gpred_names("granularity")(dd.get("r")) and \
                                any(nn.get("k") == "call" and nn.get("name") == "size" for nn in subexprs(dd.get("l")))
                    ok = ok and any(nn.get("k") == "member" and nn.get("fname") == "end" for nn in subexprs(r.get("l")))
                R.ob("C13.trim", fn, ev, ok, "trimmedEnd = range.end - (range.size() % granularity)" if ok else "trimmed end is not end minus the size remainder: " + expr_str(r), sitekey="trimmedEnd", why=WHY)
    R.need("C13.trim", n, 1, "assignment of trimmedEnd")

    # ---- adaptive chunk size ------------------------------------------------------------------------------
    n = 0
    for fn in F.functions(qname="dispenso::ChunkedRange::calcChunkSize"):
        C = Cong(F, fn, gpred_names("granularity"))
        guarded = []
        for pos, ev in fn.events():
            if ev.get("k") == "bin" and ev.get("op") == "=" and strip_casts(ev.get("l")).get("name") == "chunkSize":
                g = False
                for at, pol, b in fn.guard_atoms(pos):
                    c = comparison_of(at, pol, gpred_names("granularity"))
                    if c and c[0] in (">", ">=") and const_val(c[1]) in (1, 2):
                        g = True
                if g:
                    guarded.append((pos, ev))
        for pos, ev in guarded:
            n += 1
            classify(R, "C13.adaptive", fn, ev, C.mult(ev.get("r"), pos), "A", "adaptive chunk size " + expr_str(ev.get("r"), 5), "chunkSize")
        if not guarded:
            n += 1
            R.ob("C13.adaptive", fn, fn.loc, False, "no rounding of the adaptive chunk size under 'granularity > 1'", sitekey="chunkSize", why=WHY)
    R.need("C13.adaptive", n, 1, "granularity rounding in calcChunkSize")

    # ---- static ----------------------------------------------------------------------------------------------
    n = 0
    for fn in F.functions(qname="dispenso::detail::staticChunkSizeGranular"):
        C = Cong(F, fn, gpred_names("granularity"))
        for pos, ev in fn.events():
            if ev.get("k") == "bin" and ev.get("op") == "=" and strip_casts(ev.get("l")).get("fname") == "ceilChunkSize":
                n += 1
                classify(R, "C13.static", fn, ev, C.mult(ev.get("r"), pos), "A", "ceilChunkSize " + expr_str(ev.get("r"), 5), "ceilChunkSize")
    for fn in F.functions(qname="dispenso::detail::parallel_for_staticImpl"):
        # smallChunk = chunkSize - (perfect ? 0 : chunkStep), chunkStep = g > 1 ? g : 1
        C = Cong(F, fn, gpred_names("granularity", "chunkStep"), a_fields=("ceilChunkSize",))
        for pos, ev in fn.events():
            if ev.get("k") == "decl" and ev.get("name") == "smallChunk":
                n += 1
                classify(R, "C13.static", fn, ev, C.mult(ev.get("init"), pos), "A", "smallChunk " + expr_str(ev.get("init"), 5), "smallChunk")
            if ev.get("k") == "decl" and ev.get("name") == "chunkStep":
                n += 1
                i = strip_casts(ev.get("init"))
                ok = isinstance(i, dict) and i.get("k") == "cond" and gpred_names("granularity")(strip_casts(i.get("t")))
                R.ob("C13.static", fn, ev, ok, "chunkStep = granularity when granularity > 1" if ok else "static chunk step is not the granularity", sitekey="chunkStep", why=WHY)
        break
    for fn in F.functions(qname="dispenso::detail::StaticChunkMapper::operator()"):
        C = Cong(F, fn, lambda e: False, is_base=gpred_names("rangeStart"), a_fields=("chunkSize", "smallChunk"))
        for pos, ev in fn.events():
            if ev.get("k") == "bin" and ev.get("op") == "=" and strip_casts(ev.get("l")).get("name") in ("start",):
                n += 1
                classify(R, "C13.static", fn, ev, C.rel(ev.get("r"), pos), "R", "chunk start " + expr_str(ev.get("r"), 5), "mapper-start")
            if ev.get("k") == "bin" and ev.get("op") == "=" and strip_casts(ev.get("l")).get("name") in ("end",):
                r = strip_casts(ev.get("r"))
                if isinstance(r, dict) and r.get("k") == "member" and r.get("fname") == "rangeEnd":
                    continue
                n += 1
                C2 = Cong(F, fn, lambda e: False, is_base=gpred_names("start"), a_fields=("chunkSize", "smallChunk"))
                classify(R, "C13.static", fn, ev, C2.rel(ev.get("r"), pos), "R", "chunk end " + expr_str(ev.get("r"), 5), "mapper-end")
        break
    R.need("C13.static", n, 5, "static chunking expressions")

    # ---- stripes -------------------------------------------------------------------------------------------------
    n = 0
    for fn in F.functions(qname="dispenso::detail::initStripeState"):
        C = Cong(F, fn, gpred_names("granularity"), is_base=gpred_names("start"))
        allowed_vars = ("end", "cursor")
        for pos, ev in fn.events():
            if ev.get("k") == "bin" and ev.get("op") == "=" and strip_casts(ev.get("l")).get("name") == "stripeEnd":
                r = strip_casts(ev.get("r"))
                if isinstance(r, dict) and r.get("k") == "var" and r.get("name") in allowed_vars:
                    continue
                n += 1
                classify(R, "C13.stripes", fn, ev, C.rel(ev.get("r"), pos), "R", "interior stripe boundary " + expr_str(ev.get("r"), 5), "stripeEnd")
        break
    for fn in F.functions(qname="dispenso::detail::stripeClaim"):
        n += 1
        adds = [nd for _, nd in fn.all_nodes() if nd.get("k") == "call" and nd.get("atomic", {}).get("op") == "fetch_add"]
        ok = bool(adds) and all(any(nn.get("k") in ("member", "var") and (nn.get("fname") == "chunkSize" or nn.get("name") == "chunkSize") for nn in subexprs(a["args"][0])) for a in adds)
        R.ob("C13.stripes", fn, fn.loc, ok, "stripes are claimed in steps of the stripe chunk size" if ok else "claim step is not the chunk size", sitekey="claim-step", why=WHY)
        break
    R.need("C13.stripes", n, 2, "stripe boundary expressions")
