"""C03 — pool resize never loses, duplicates or strands work (bounds + sequence clauses).

Decided on every CFG path of ThreadPool::resizeLocked and the ring consumers:
  C03.ring-bound    the ring count that task-set waiters scan (numRings_) never shrinks: every store to
                    it in resizeLocked is the arena's full size (rings_.size(), which only grows) or a
                    max with the previous value. A producer that read a larger count before the resize
                    may still push to the higher rings after the drain; no worker owns them afterwards,
                    so only a scan that still covers them can run those tasks.
  C03.sequence      resizeLocked: stop all workers -> wakeAll -> join -> drain every ring of both
                    arenas (full size()) -> construct new rings (grow_by) before publishing the larger
                    count -> publish counts and the new wake state -> only then start the new workers.
  C03.drain-linear  every task popped by the drains is run exactly once on every path (K5) and is
                    accounted (executeNext; see also C08).
"""
import re
from lib import typestate
from lib.facts import Pos, const_val, expr_str, is_call, order_at_least, strip_casts, subexprs
from lib.rules import atomic_ops, field_name, lvalue_path, single_def_value

LEVEL = "other"
EXPLANATION = __doc__
NOT_DECIDED = ["interleavings of producers with resize beyond the stranded-ring window", "delivery inside the queues/rings"]
NUMRINGS = "dispenso::ThreadPool::numRings_"
WHY = "a task pushed to a ring that no worker owns and no waiter scans is stranded: the set's wait() never returns"


def run(R):
    F = R.F
    n = 0
    for fn in F.functions(qname="dispenso::ThreadPool::resizeLocked"):
        ops = atomic_ops(F, fn)
        for a in ops:
            if a.field == NUMRINGS and a.op == "store":
                n += 1
                v = strip_casts(a.node["args"][0])
                ok = False
                det = expr_str(v)
                if isinstance(v, dict) and v.get("k") == "call" and v.get("name") == "size" and field_name(lvalue_path(F, fn, v.get("obj"))) == "dispenso::ThreadPool::rings_":
                    ok = True
                if isinstance(v, dict) and v.get("k") == "call" and v.get("callee") == "std::max" and any(nn.get("k") == "call" and "atomic" in nn and field_name(lvalue_path(F, fn, nn.get("obj"))) == NUMRINGS for nn in subexprs(v)):
                    ok = True
                R.ob("C03.ring-bound", fn, a.node, ok, "numRings_ = %s (never shrinks)" % det if ok else "numRings_ = %s can shrink: rings above the new count are no longer scanned by waiters" % det, sitekey="numRings-store", why=WHY)
        # sequence
        ev = lambda pred: [(p, e) for p, e in fn.events() if pred(e)]
        stops = ev(lambda e: is_call(e, "dispenso::ThreadPool::PerThreadData::stop"))
        wakes = ev(lambda e: is_call(e, "dispenso::detail::PoolWakeState::wakeAll"))
        joins = ev(lambda e: is_call(e, "std::thread::join"))
        pops = [(p, e) for p, e in fn.events() if e.get("k") == "call" and e.get("name") == "try_pop"]
        grows = [(p, e) for p, e in fn.events() if e.get("k") == "call" and e.get("name") == "grow_by" and field_name(lvalue_path(F, fn, e.get("obj"))) == "dispenso::ThreadPool::rings_"]
        nstores = [(a.pos, a.node) for a in ops if a.field == NUMRINGS and a.op == "store"]
        wstores = [(a.pos, a.node) for a in ops if a.field == "dispenso::ThreadPool::wakeState_" and a.op == "store"]
        starts = ev(lambda e: is_call(e, "dispenso::ThreadPool::PerThreadData::setThread"))
        def before(A, B, what):
            ok = bool(A) and bool(B) and all(not fn.can_reach(bp, ap) for ap, _ in A for bp, _ in B) and all(any(fn.can_reach(ap, bp) for ap, _ in A) for bp, _ in B)
            return ok, what
        checks = [before(stops, wakes, "stop before wakeAll"), before(wakes, joins, "wakeAll before join"), before(joins, pops, "join before the ring drains"),
                  before(grows, nstores, "new rings constructed before the count is published"), before(nstores, starts, "ring count published before workers start"),
                  before(wstores, starts, "wake state published before workers start"), before(pops, starts, "rings drained before workers start")]
        for ok, what in checks:
            n += 1
            R.ob("C03.sequence", fn, fn.loc, ok, what if ok else "order violated: " + what, sitekey=what, why="resize stops the world, drains, rebuilds, publishes, restarts -- in that order")
        # drains cover the full arenas
        for fld in ("rings_", "stealRings_"):
            n += 1
            ok = False
            for b, t in fn.branch_blocks():
                c = strip_casts(t["cond"])
                if isinstance(c, dict) and c.get("k") == "bin" and c.get("op") == "<":
                    r = strip_casts(c.get("r"))
                    if isinstance(r, dict) and r.get("k") == "var":   # `const size_t n = rings_.size(); i < n`
                        d = single_def_value(fn, r)
                        r = strip_casts(d) if d is not None else r
                    if isinstance(r, dict) and r.get("k") == "call" and r.get("name") == "size" and (field_name(lvalue_path(F, fn, r.get("obj"))) or "").endswith("::" + fld):
                        ok = True
            R.ob("C03.sequence", fn, fn.loc, ok, "drain of %s covers the whole arena" % fld if ok else "drain of %s does not cover the whole arena" % fld, sitekey="drain-bound:" + fld, why="shadow rings from an earlier, larger size may still hold tasks")
        # K5 on the drains
        tracked, owned = typestate.once_function_vars(fn)
        n += 1
        L = typestate.Linear(F, fn, tracked, allow_drop_when_cancelled=False)
        vios, stats = L.run(owned_params=owned)
        R.paths_enumerated += stats["state_block_pairs"]
        R.ob("C03.drain-linear", fn, fn.loc, not vios, "every popped task is run exactly once (%d states)" % stats["state_block_pairs"] if not vios else vios[0]["msg"], sitekey="drains", why="resize must not lose or duplicate a task")
    R.need("C03", n, 10, "resizeLocked rule instances")
