"""C38 — SmallVector behaves like std::vector with aligned storage (alignment witness + lifetime clause).

  C38.heap-align    for every instantiated SmallVector<T,N>::growToHeap: if alignof(T) exceeds the
                    default operator-new alignment (16 on this target), the heap block must come from
                    an aligned allocation form (operator new(size_t, std::align_val_t) / alignedMalloc)
                    and be released by the matching form. alignof(T) and the overload that the call
                    resolved to are read from the type-checked AST (witness type: alignas(64)).
  C38.inline-align  the inline buffer member is declared with at least alignof(T).
  C38.lifetime      growToHeap move-constructs each element into the new block and then destroys the
                    old one, and frees the old heap block (only when not inline) before adopting the
                    new one; pop_back/erase destroy exactly one element per decrement on every path;
                    resize destroys (shrinking) or constructs (growing) in a loop before setSize;
                    destroyAll destroys all elements and frees the heap block iff one is owned.
  C38.move-transfer the element-wise loops of the move constructor / move assignment destroy each source
                    element they moved from (the source is then declared empty without destructors).
  C38.heap-bit      every plain assignment to this->size_ keeps the storage-mode bit (or is `= 0` right
                    after destroyAll()).
  C38.growth        every growToHeap(newCap) reached from emplace_back on a full vector asks for more
                    than the capacity it replaces, evaluated for each instantiated N (N = 1 included)
                    and a family of heap capacities.
"""
import re
from lib import dataflow
from lib.facts import Pos, const_val, expr_str, is_call, strip_casts, subexprs
from lib.rules import natural_loops

LEVEL = "other"
EXPLANATION = __doc__
NOT_DECIDED = ["equality of contents with std::vector (value property)"]
CLS = "dispenso::SmallVector"
DEFAULT_NEW_ALIGN = 16
WHY = "every element must live at an address aligned for its type, in inline and in heap storage"


def is_destroy(e):
    if (e.get("k") == "call" and e.get("dtorcall")) or e.get("k") == "pseudodtor":
        return True
    return e.get("k") == "call" and e.get("callee") is None and isinstance(e.get("fn"), dict) and e["fn"].get("k") == "pseudodtor"


def run(R):
    F = R.F
    n = 0
    for fn in F.functions(qname=CLS + "::growToHeap"):
        news = [nd for _, nd in fn.all_nodes() if nd.get("k") == "new" and nd.get("placement")]
        talign = max([nd.get("talign", 1) for nd in news] or [1])
        raw = [nd for _, nd in fn.all_nodes() if nd.get("k") == "call" and bool(re.match(r"^operator ?new", nd.get("callee") or "")) or is_call(nd, re.compile(r"alignedMalloc$"))]
        n += 1
        aligned_form = any("align_val_t" in " ".join(str(x) for x in (nd.get("targv") or [])) or any("align_val_t" in (a.get("type") or a.get("to") or "") for a in nd.get("args", []) if isinstance(a, dict)) or (nd.get("callee") or "").endswith("alignedMalloc") for nd in raw)
        ok = talign <= DEFAULT_NEW_ALIGN or aligned_form
        inst = fn.raw.get("clsinst", "")
        R.ob("C38.heap-align", fn, raw[0] if raw else fn.loc, ok, "%s: alignof(T) = %d, heap block from %s" % (inst, talign, "an aligned allocation" if aligned_form else "plain ::operator new(size_t) (guarantees %d)" % DEFAULT_NEW_ALIGN),
             sitekey="growToHeap:" + ("over-aligned" if talign > DEFAULT_NEW_ALIGN else "normal"), why=WHY)
    R.need("C38.heap-align", n, 2, "growToHeap instantiations (one with an over-aligned T)")

    n = 0
    for name, rec in F.records.items():
        if rec.get("qname") == CLS + "::Storage":
            for f in rec.get("fields", []):
                if f["name"] == "inline_":
                    n += 1
                    m = re.search(r"SmallVector<(.+), \d+>::Storage", name)
                    # element alignment: alignment of the record itself is max(alignof(T), alignof(HeapStorage)=8)
                    R.ob("C38.inline-align", None, rec.get("loc"), f.get("align", 0) >= 1 and rec.get("align", 0) >= f.get("align", 0), "%s: inline_ alignment %s, union alignment %s" % (name, f.get("align"), rec.get("align")), sitekey="inline:" + name[:60], why=WHY)
    # lifetime
    n2 = 0
    for fn in F.functions(qname=CLS + "::growToHeap"):
        if "Tracked" not in fn.raw.get("clsinst", ""):
            continue   # lifetime rules are checked on the instantiation with a non-trivial element type
        n2 += 1
        ok = False
        for h, body, tails in natural_loops(fn):
            nw = [p for p, nd in fn.all_nodes() if p.b in body and nd.get("k") == "new" and nd.get("placement")]
            ds = [p for p, e in fn.events() if p.b in body and is_destroy(e)]
            if nw and ds and all(fn.dominates(a, b) or (a.b == b.b and a.i <= b.i) for a in nw for b in ds):
                ok = True
        frees = [(p, e) for p, e in fn.events() if e.get("k") == "call" and bool(re.match(r"^operator ?delete", e.get("callee") or "")) or is_call(e, re.compile(r"alignedFree$"))]
        adopt = [(p, e) for p, e in fn.events() if e.get("k") == "bin" and e.get("op") == "=" and isinstance(strip_casts(e.get("l")), dict) and strip_casts(e.get("l")).get("fname") == "ptr"]
        ok2 = bool(frees) and bool(adopt) and all(fn.dominates(p, adopt[0][0]) or fn.can_reach(p, adopt[0][0]) for p, _ in frees) and \
            all(any((not pol) and isinstance(strip_casts(at), dict) and strip_casts(at).get("name") == "isInline" for at, pol, b in fn.guard_atoms(p)) for p, _ in frees)
        R.ob("C38.lifetime", fn, fn.loc, ok and ok2, "move-construct then destroy each element; free the old heap block (if any) before adopting the new one" if ok and ok2 else "growToHeap element/heap lifetime order broken", sitekey="growToHeap", why="each element is constructed and destroyed exactly once")
        break
    for fn in F.functions(cls=CLS):
        nm = fn.qname.split("::")[-1]
        if "Tracked" not in fn.raw.get("clsinst", ""):
            continue
        if nm in ("pop_back", "erase"):
            n2 += 1
            def transfer(pos, ev, st):
                s, d = st
                if ev.get("k") == "un" and ev.get("op") == "--" and isinstance(strip_casts(ev.get("e")), dict) and strip_casts(ev.get("e")).get("fname") == "size_":
                    s = min(s + 1, 2)
                if is_destroy(ev):
                    d = min(d + 1, 2)
                return (s, d)
            vios, _ = dataflow.run(fn, (0, 0), transfer, None, lambda st: None if st[0] == st[1] == 1 else "size decremented %d time(s), %d element(s) destroyed" % st)
            R.ob("C38.lifetime", fn, fn.loc, not vios, "%s: one decrement, one destructor on every path" % nm if not vios else vios[0]["msg"], sitekey=nm, why="each element is destroyed exactly once")
        if nm == "destroyAll":
            n2 += 1
            loops = [1 for h, body, tails in natural_loops(fn) if any(p.b in body and is_destroy(e) for p, e in fn.events())]
            frees = [(p, e) for p, e in fn.events() if e.get("k") == "call" and bool(re.match(r"^operator ?delete", e.get("callee") or "")) or is_call(e, re.compile(r"alignedFree$"))]
            ok = bool(loops) and bool(frees) and all(any((not pol) and isinstance(strip_casts(at), dict) and strip_casts(at).get("name") == "isInline" for at, pol, b in fn.guard_atoms(p)) for p, _ in frees)
            R.ob("C38.lifetime", fn, fn.loc, ok, "destroys all elements; frees the heap block iff not inline" if ok else "destroyAll does not destroy all / frees inline storage", sitekey="destroyAll", why="each element is destroyed exactly once")
    R.need("C38.lifetime", n2, 4, "SmallVector lifetime sites")
    growth_rule(R)
    move_transfer_rule(R)
    heap_bit_rule(R)


def growth_rule(R):
    """C38.growth: a full vector must grow. Every growToHeap(newCap) in emplace_back, evaluated for the
    instantiation's N and for a family of current heap capacities, asks for more than the capacity it
    replaces (1.5x with truncation stalls at capacity 1: the next element is written past the block)."""
    from lib.rules import eval_int
    F = R.F
    n = 0
    seenN = set()
    for fn in F.functions(qname=CLS + "::emplace_back"):
        m = re.search(r"SmallVector<.*,\s*(\d+)\s*>$", fn.raw.get("clsinst", "") or "")
        N = int(m.group(1)) if m else None
        if N is None:
            continue
        seenN.add(N)
        for p, e in fn.events():
            if not is_call(e, CLS + "::growToHeap"):
                continue
            n += 1
            arg = e["args"][0]
            uses_cap = any(isinstance(x, dict) and x.get("k") == "member" and x.get("fname") == "capacity" for x in subexprs(arg))
            bad, unknown = [], False
            # a heap block always holds more than N elements (it is created by growing past N, or by
            # reserve(n > capacity)): capacities <= N are not reachable in the heap branch
            for cur in (sorted({c for c in (N + 1, N + 2, 2 * N, 2 * N + 1, 3, 5, 8, 9, 16, 1000) if c > N}) if uses_cap else [N]):
                v = eval_int(fn, arg, lambda x: cur if (x.get("k") == "member" and x.get("fname") == "capacity") else None)
                if v is None:
                    unknown = True
                    break
                if v <= cur:
                    bad.append((cur, v))
            if unknown:
                R.inconclusive("C38.growth", "cannot evaluate the new capacity %s in %s" % (expr_str(arg), fn.display))
                continue
            R.ob("C38.growth", fn, e, not bad, "growToHeap(%s) grows a full vector (N=%d)" % (expr_str(arg), N) if not bad else
                 "growToHeap(%s): a full vector of capacity %d is 'grown' to %d (N=%d): the next element is constructed past the end of the block" % (expr_str(arg), bad[0][0], bad[0][1], N),
                 sitekey="emplace_back:%s" % ("heap" if uses_cap else "inline"), why="emplace_back on a full vector writes element size() of a block that must hold more than size() elements")
    R.need("C38.growth", n, 2, "growToHeap calls in emplace_back")
    R.need("C38.growth", 1 if 1 in seenN else 0, 1, "an instantiation with inline capacity N = 1 (the smallest legal one)")


def move_transfer_rule(R):
    """C38.move-transfer: the move constructor / move assignment take the inline elements of `other`
    one by one and then declare `other` empty (other.size_ = 0) without running destructors: every
    loop that move-constructs from an element of `other` must destroy that source element in the
    same iteration, or the moved-from objects are never destroyed."""
    F = R.F
    n = 0
    for fn in F.functions(cls=CLS):
        nm = fn.qname.split("::")[-1]
        if nm not in ("(ctor)", "operator=") or "Tracked" not in fn.raw.get("clsinst", ""):
            continue
        prm = [p for p in fn.params if "&&" in (p.get("type") or "") and "SmallVector" in (p.get("type") or "")]
        if not prm:
            continue
        ov = prm[0]["vid"]
        def on_other(x):
            # directly, or through a local that was derived from it (`T* src = other.inlineData();`)
            return any(isinstance(y, dict) and y.get("k") == "var" and y.get("vid") == ov for y in subexprs(fn.expand_expr(x)))
        zeroed = [(p, e) for p, e in fn.events() if e.get("k") == "bin" and e.get("op") == "=" and const_val(e.get("r")) == 0 and on_other(e.get("l"))]
        if not zeroed:
            continue
        for h, body, tails in natural_loops(fn):
            news = [(p, nd) for p, nd in fn.all_nodes() if p.b in body and nd.get("k") == "new" and nd.get("placement") and on_other(nd)]
            if not news:
                continue
            n += 1
            dts = [(p, e) for p, e in fn.events() if p.b in body and is_destroy(e) and on_other(e)]
            ok = bool(dts) and all(any(fn.dominates(np, dp) or fn.can_reach(np, dp) for dp, _ in dts) for np, _ in news)
            R.ob("C38.move-transfer", fn, news[0][1], ok, "each element moved out of `other` is destroyed in the same iteration" if ok else
                 "elements are move-constructed out of `other` but never destroyed; `other` is then declared empty, so their destructors never run",
                 sitekey="%s:inline-loop" % nm, why="every element constructed must be destroyed exactly once")
    R.need("C38.move-transfer", n, 2, "element-wise move loops (move constructor, move assignment)")


def heap_bit_rule(R):
    """C38.heap-bit: the top bit of size_ says whether the elements live in the heap block. Every plain
    assignment to this->size_ either carries that bit along (`(size_ & kHeapBit) | n`, `kHeapBit | n`)
    or is `size_ = 0` right after destroyAll() released the heap block. `size_ = count` on a vector
    that has spilled silently switches it back to the inline buffer: the heap block and its elements
    are lost and the inline slots are treated as live objects."""
    F = R.F
    n = 0
    for fn in F.functions(cls=CLS):
        if "Tracked" not in fn.raw.get("clsinst", ""):
            continue
        for p, e in fn.events():
            if not (e.get("k") == "bin" and e.get("op") == "="):
                continue
            l = strip_casts(e.get("l"))
            if not (isinstance(l, dict) and l.get("k") == "member" and l.get("fname") == "size_" and isinstance(strip_casts(l.get("base")), dict) and strip_casts(l.get("base")).get("k") == "this"):
                continue
            n += 1
            r = e.get("r")
            # the storage-mode flag is the top bit of size_type (whatever the constant is called)
            keeps = any(isinstance(x, dict) and const_val(x) in (1 << 63, 1 << 31, 1 << 15, -(1 << 63), -(1 << 31)) for x in subexprs(fn.expand_expr(r, use_block=p.b)))
            zero_after_release = const_val(r) == 0 and any(is_call(de, CLS + "::destroyAll") and fn.dominates(dp, p) for dp, de in fn.events())
            ok = keeps or zero_after_release
            R.ob("C38.heap-bit", fn, e, ok, "size_ = %s keeps the storage-mode bit" % expr_str(r) if keeps else ("size_ = 0 after destroyAll()" if ok else
                 "size_ = %s drops the heap bit: a spilled vector falls back to its inline buffer, leaking the heap block and its elements" % expr_str(r)),
                 sitekey="%s:size_=" % fn.qname.split("::")[-1], why="data() must keep pointing at the storage the elements were constructed in")
    R.need("C38.heap-bit", n, 5, "assignments to size_")
