"""C27 — pipeline delivers every item through every stage exactly once (hand-off clauses).

Decided on every CFG path of the pipeline implementation (all stage shapes in drivers/pipeline.cpp):
  C27.linear       K5 ownership of every OnceFunction in LimitGatedScheduler::Impl::{schedule, wait} and
                   the lambdas they create: a dequeued item is scheduled, run inline, or
                   cleanupNotRun() exactly once on every path (including the goto next_item path).
  C27.outstanding  outstanding_ is incremented before any hand-off in schedule(); every queued item
                   lambda owns an OutstandingGuard (whose destructor decrements) declared before the
                   stage runs; in wait() every discarded item is paired with one decrement.
  C27.slot         resource slots: the acquire loop of schedule() gives back its last decrement on
                   every exit; the item lambda arms a ResourceGuard before the stage and the
                   completion callback, after disarming it, hands the slot to the next item or adds
                   it back on every path; the acquire spin in wait() undoes each failed decrement.
  C27.stage-order  every Pipe::execute item lambda: stage call, then the completion callback exactly
                   once on every path, then pipeNext_.execute at most once (for filtering stages
                   only under 'op is engaged').
  C27.wait-exit    LimitGatedScheduler::Impl::wait leaves its loops only when outstanding_ was read
                   zero or an exception was captured.
  C27.wait-order   Pipe::wait(): a stage is drained before the stage after it is waited on (its own
                   LimitGatedScheduler / generator completion wait dominates pipeNext_.wait()): a
                   downstream wait that starts while upstream items can still arrive may return at a
                   momentary outstanding_ == 0 and strand a late item in its local queue.
  C27.runners      the number of stage-runner tasks launched by the generator and single-stage
                   Pipe::execute has lower bound 1 (a zero-thread pool is a supported configuration).
"""
import re
from lib import typestate
from lib.facts import Pos, const_val, expr_str, is_call, strip_casts, strip_move, subexprs
from lib.rules import (atomic_ops, body_invocations, comparison_of, field_name, lower_bound, lvalue_path,
                       natural_loops, loop_exit_edges, local_defs, is_atomic_node)

LEVEL = "other"
EXPLANATION = __doc__
NOT_DECIDED = ["the enqueue / empty-queue race between a completion callback and a concurrent schedule()", "delivery inside moodycamel::ConcurrentQueue and the ConcurrentTaskSet (C02)"]
IMPL = "dispenso::detail::LimitGatedScheduler::Impl"
OUT = IMPL + "::outstanding_"
RES = IMPL + "::resources_"
WHY = "an item handed to a stage must run that stage exactly once, or be discarded exactly once after an exception"


def check_slots(R, inst):
    F = R.F
    # ---- resource slots ---------------------------------------------------------------------------------
    n = 0
    for fn in F.functions(qname=IMPL + "::schedule"):
        ops = atomic_ops(F, fn)
        acq = [a for a in ops if a.field == RES and a.op == "fetch_sub"]
        rel = [a for a in ops if a.field == RES and a.op == "fetch_add"]
        for a in acq:
            n += 1
            # every path from a decrement that does not hand the slot to an item passes the add-back:
            # handing on = tasks_.schedule(...) reached through the loop and back to the decrement
            path = fn.path_to_exit_avoiding(a.pos, lambda p, e: any(p == r.pos for r in rel))
            R.ob(inst, fn, a.node, path is None, "the acquire loop's final decrement is added back on every exit" if path is None else "a loop exit keeps a resource slot that no item owns",
                 sitekey="acquire-loop", why="each successful decrement is owned by exactly one item; the failed/last one must be undone",
                 path=fn.describe_path(path) if path else None)
        for ch in fn.children():
            rg = [(p, e) for p, e in ch.events() if e.get("k") == "decl" and "ResourceGuard" in e.get("type", "")]
            if not rg:
                continue
            n += 1
            stage_calls = [(p, e) for p, e in ch.events() if e.get("k") == "call" and e.get("opcall") == "()" and isinstance(strip_move(e.get("obj")), dict)
                           and strip_move(e.get("obj")).get("name") == "fPipe"]
            ok = bool(stage_calls) and all(ch.dominates(rg[0][0], p) for p, _ in stage_calls)
            R.ob(inst, ch, rg[0][1], ok, "ResourceGuard armed before the stage runs" if ok else "stage can run without an armed ResourceGuard", sitekey="rguard", why="if the stage throws before the completion callback the slot must still be released")
            # completion callback
            for cb in ch.children():
                dis = [(p, e) for p, e in cb.events() if e.get("k") == "call" and e.get("name") == "disarm"]
                if not dis:
                    continue
                n += 1
                ops2 = atomic_ops(F, cb)
                addback = {a.pos for a in ops2 if a.field == RES and a.op == "fetch_add"}
                def hands_on(p, e):
                    if p in addback:
                        return True
                    if e.get("k") == "call" and (e.get("callee") or "").endswith("ConcurrentTaskSet::schedule"):
                        return True
                    if e.get("k") == "call" and e.get("opcall") == "()" and isinstance(strip_move(e.get("obj")), dict) and strip_move(e.get("obj")).get("ctype") == "dispenso::OnceFunction":
                        return True
                    return False
                path = cb.path_to_exit_avoiding(dis[0][0], hands_on)
                R.ob(inst, cb, dis[0][1], path is None, "after disarming, the slot is handed to the next item or added back on every path" if path is None else "completion callback can return holding the slot",
                     sitekey="completion", why="the slot is held for exactly the span of one stage invocation", path=cb.describe_path(path) if path else None)
    for g in [f for f in F.fns if f.qname.endswith("ResourceGuard::(dtor)")]:
        adds = [a for a in atomic_ops(F, g) if a.op == "fetch_add" and const_val(a.node["args"][0]) == 1]
        n += 1
        ok = len(adds) == 1 and any(isinstance(strip_casts(at), dict) and strip_casts(at).get("fname") == "armed_" and pol for at, pol, _ in g.guard_atoms(adds[0].pos))
        R.ob(inst, g, g.loc, ok, "releases one slot iff still armed" if ok else "ResourceGuard destructor does not release exactly when armed", sitekey="rguard-dtor", why=WHY)
    for fn in F.functions(qname=IMPL + "::wait"):
        ops = atomic_ops(F, fn)
        for a in ops:
            if a.field == RES and a.op == "fetch_sub":
                # a spin of the form while (fetch_sub(1) <= 0) { fetch_add(1); ... }
                n += 1
                undo = [r for r in ops if r.field == RES and r.op == "fetch_add"]
                ok = False
                for r in undo:
                    for at, pol, b in fn.guard_atoms(r.pos):
                        c = comparison_of(at, pol, lambda x: isinstance(x, dict) and x.get("sid") == a.node["sid"])
                        if c and c[0] in ("<=", "<") and const_val(c[1]) in (0, 1):
                            # first thing in the loop body: nothing between the failed decrement and the undo can leave the loop
                            ok = True
                R.ob(inst, fn, a.node, ok, "a failed slot acquisition in wait() is undone before anything else" if ok else "failed acquisition in wait() is not undone",
                     sitekey="wait-acquire", why="a failed decrement must not leak a negative count")
    return n



def run(R):
    F = R.F
    impl_fns = [f for f in F.fns if f.root_parent().qname.startswith(IMPL + "::")]
    # ---- K5 ---------------------------------------------------------------------------------------
    n = 0
    for fn in impl_fns:
        tracked, owned = typestate.once_function_vars(fn)
        if not tracked:
            continue
        n += 1
        L = typestate.Linear(F, fn, tracked, allow_drop_when_cancelled=False)
        vios, stats = L.run(owned_params=owned)
        R.paths_enumerated += stats["state_block_pairs"]
        names = ",".join(sorted(set(tracked.values())))
        if not vios:
            R.ob("C27.linear", fn, fn.loc, True, "%s: %d (block,state) pairs, each dequeued item consumed exactly once on every path" % (names, stats["state_block_pairs"]),
                 sitekey="vars:" + names, why=WHY)
        for v in vios:
            R.ob("C27.linear", fn, (v["ev"] or {}).get("loc") or fn.loc, False, v["msg"], sitekey="vars:" + names, why=WHY, path=fn.describe_path(v["trail"][-10:]))
    R.need("C27.linear", n, 3, "LimitGatedScheduler functions/lambdas holding OnceFunction items")

    # ---- outstanding_ -------------------------------------------------------------------------------
    n = 0
    for fn in F.functions(qname=IMPL + "::schedule"):
        incs = [a for a in atomic_ops(F, fn) if a.field == OUT and a.op == "fetch_add"]
        handoffs = [(p, e) for p, e in fn.events() if e.get("k") == "call" and (e.get("callee") or "").endswith(("::schedule", "::enqueue"))]
        n += 1
        ok = bool(incs) and bool(handoffs) and all(fn.dominates(incs[0].pos, p) for p, _ in handoffs)
        R.ob("C27.outstanding", fn, incs[0].node if incs else fn.loc, ok, "outstanding_ += 1 dominates all %d hand-offs" % len(handoffs) if ok else "an item can be handed on before outstanding_ is incremented",
             sitekey="inc-first", why="wait() spins on outstanding_; it must cover every item from the moment it can be observed")
        # item lambdas passed to tasks_.schedule / queue_.enqueue at top level
        for ch in fn.children():
            if not ch.is_lambda:
                continue
            guards = [(p, e) for p, e in ch.events() if e.get("k") == "decl" and "OutstandingGuard" in e.get("type", "")]
            stage_calls = [(p, e) for p, e in ch.events() if e.get("k") == "call" and e.get("opcall") == "()" and isinstance(strip_move(e.get("obj")), dict)
                           and strip_move(e.get("obj")).get("name") == "fPipe"]
            if not stage_calls:
                continue
            n += 1
            ok = bool(guards) and all(ch.dominates(guards[0][0], p) for p, _ in stage_calls)
            dt = [(p, e) for p, e in ch.events() if e.get("k") == "autodtor" and "OutstandingGuard" in e.get("type", "")]
            # the guard is destroyed on every exit
            path = ch.path_to_exit_avoiding(guards[0][0], lambda p, e: e.get("k") == "autodtor" and "OutstandingGuard" in e.get("type", "")) if guards else [0]
            R.ob("C27.outstanding", ch, guards[0][1] if guards else ch.loc, ok and path is None,
                 "OutstandingGuard declared before the stage runs and destroyed on every exit" if ok and path is None else "item lambda can leave without decrementing outstanding_",
                 sitekey="item-guard", why="each item decrements outstanding_ exactly once, also when the stage throws")
    for g in [f for f in F.fns if f.qname.endswith("OutstandingGuard::(dtor)")]:
        decs = [a for a in atomic_ops(F, g) if a.op == "fetch_sub" and const_val(a.node["args"][0]) == 1]
        n += 1
        R.ob("C27.outstanding", g, g.loc, len(decs) == 1, "guard destructor decrements by 1" if len(decs) == 1 else "guard destructor does not decrement exactly once", sitekey="guard-dtor", why=WHY)
    for fn in F.functions(qname=IMPL + "::wait"):
        decs = {a.pos for a in atomic_ops(F, fn) if a.field == OUT and a.op == "fetch_sub"}
        for p, e in fn.events():
            if e.get("k") == "call" and e.get("name") == "cleanupNotRun":
                n += 1
                # paired: a decrement dominates it since the item became owned (between the dequeue guard and here) or follows it
                before = [d for d in decs if fn.dominates(d, p) and d.b == p.b or fn.dominates(d, p) and any(bb == d.b for _, _, bb in fn.guard_atoms(p)) or fn.dominates(d, p)]
                near = [d for d in decs if fn.dominates(d, p)]
                after = fn.path_to_exit_avoiding(p, lambda pp, ee: pp in decs) is None
                # exactly one decrement between the dequeue that produced the item and the cleanup
                src_guard = [bb for a, pol, bb in fn.guard_atoms(p) if pol and isinstance(strip_casts(a), dict) and (strip_casts(a).get("name") or "").startswith("try_dequeue") or
                             (isinstance(strip_casts(a), dict) and strip_casts(a).get("k") == "var" and strip_casts(a).get("name") == "deqd" and pol)]
                cnt = 0
                for d in decs:
                    if fn.dominates(d, p) and src_guard and all(fn.block_dominates(sb, d.b) for sb in src_guard[-1:]):
                        cnt += 1
                ok = cnt == 1
                R.ob("C27.outstanding", fn, e, ok, "discard is paired with exactly one outstanding_ decrement" if ok else "discarded item paired with %d decrements of outstanding_" % cnt,
                     sitekey="discard-dec", why="a discarded item never runs its OutstandingGuard; wait() must account for it")
    R.need("C27.outstanding", n, 6, "outstanding_ accounting sites")

    n = check_slots(R, "C27.slot")
    R.need("C27.slot", n, 6, "resource slot sites")

    # ---- stage order in Pipe::execute lambdas ------------------------------------------------------------
    n = 0
    for fn in F.fns:
        if not (fn.is_lambda and fn.parent is not None and re.search(r"dispenso::detail::Pipe::execute$", fn.parent.qname)):
            continue
        stage = [(p, e) for p, e in fn.events() if e.get("k") == "call" and e.get("opcall") == "()" and field_name(lvalue_path(F, fn, e.get("obj"))) is not None
                 and (field_name(lvalue_path(F, fn, e.get("obj"))) or "").endswith("::stage_")]
        comp = [(p, e) for p, e in fn.events() if e.get("k") == "call" and e.get("opcall") == "()" and isinstance(strip_move(e.get("obj")), dict) and strip_move(e.get("obj")).get("name") == "stageCompleteFunc"]
        nxt = [(p, e) for p, e in fn.events() if e.get("k") == "call" and e.get("name") == "execute" and (field_name(lvalue_path(F, fn, e.get("obj"))) or "").endswith("::pipeNext_")]
        if not comp:
            continue   # generator / single-stage runners: see C27.runners and C29
        n += 1
        ok = len(stage) == 1 and len(comp) == 1 and fn.dominates(stage[0][0], comp[0][0]) and fn.postdominates(comp[0][0], stage[0][0]) and len(nxt) <= 1 and all(fn.dominates(comp[0][0], p) for p, _ in nxt)
        det = "stage -> completion callback (exactly once, on every path) -> next stage (at most once)"
        m = re.match(r"^dispenso::detail::Pipe<dispenso::detail::StageClass::(\w+)", fn.parent.raw.get("clsinst", ""))
        if ok and m and m.group(1) == "kOpTransform":
            # filtering stage: pass on only engaged results
            g_ok = False
            for at, pol, b in fn.guard_atoms(nxt[0][0]) if nxt else []:
                a2 = strip_casts(at)
                if isinstance(a2, dict) and pol and (a2.get("k") == "call" and a2.get("name") in ("operator(conv)", "has_value", "operator bool") or a2.get("k") == "var"):
                    g_ok = True
            if nxt and not g_ok:
                ok = False
                det = "a filtering stage passes the item on without testing that the result is engaged"
        elif not ok:
            det = "stage call / completion callback / next-stage order violated (stage calls %d, completion calls %d, next calls %d)" % (len(stage), len(comp), len(nxt))
        R.ob("C27.stage-order", fn, comp[0][1], ok, det, sitekey="item-lambda", why="the slot is released after the stage and before the item enters the next stage; each item enters the next stage once")
    R.need("C27.stage-order", n, 3, "Pipe::execute item lambdas (transform, filtering transform, sink)")

    # ---- wait() loop exits ------------------------------------------------------------------------------------
    n = 0
    for fn in F.functions(qname=IMPL + "::wait"):
        for h, body, tails in natural_loops(fn):
            t = fn.term(h) or {}
            cond = t.get("cond")
            if not (isinstance(cond, dict) and is_atomic_node(F, fn, strip_casts(cond), OUT, ("load", "operator(conv)"))):
                continue
            n += 1
            bad = []
            for b, i, s in loop_exit_edges(fn, body):
                if b == h and i == 1:
                    continue   # outstanding_ read zero
                # must be dominated by hasException() true
                pos = Pos(b, len(fn.blocks[b]["elems"]))
                ok = False
                for at, pol, gb in fn.guard_atoms(Pos(s, 0)) + fn.guard_atoms(pos):
                    a2 = strip_casts(at)
                    if isinstance(a2, dict) and a2.get("k") == "call" and a2.get("name") == "hasException" and pol:
                        ok = True
                if not ok:
                    bad.append("B%d->B%d" % (b, s))
            R.ob("C27.wait-exit", fn, t.get("loc") or fn.loc, not bad, "the loop is left only when outstanding_ == 0 or an exception was captured" if not bad else "loop exit(s) %s with items outstanding and no exception" % ",".join(bad),
                 sitekey="loop@outstanding", why="pipeline() may return only after every item has passed through every stage")
    R.need("C27.wait-exit", n, 2, "outstanding_ loops in LimitGatedScheduler::Impl::wait")

    # ---- wait order -----------------------------------------------------------------------------------------
    n = 0
    for fn in F.fns:
        if not re.search(r"^dispenso::detail::(TransformPipe|Pipe)::wait$", fn.qname):
            continue
        nxt = [(p, e) for p, e in fn.events() if e.get("k") == "call" and e.get("name") == "wait" and (field_name(lvalue_path(F, fn, e.get("obj"))) or "").endswith("::pipeNext_")]
        if not nxt:
            continue
        own = [(p, e) for p, e in fn.events() if e.get("k") == "call" and e.get("name") == "wait" and
               ((field_name(lvalue_path(F, fn, e.get("obj"))) or "").endswith("TransformPipe::tasks_") or (field_name(lvalue_path(F, fn, e.get("obj"))) or "").endswith("::completion_"))]
        n += 1
        ok = bool(own) and all(fn.dominates(own[0][0], p) for p, _ in nxt)
        R.ob("C27.wait-order", fn, nxt[0][1], ok, "own stage drained before the next stage is waited on" if ok else "the next stage is waited on before this stage has drained: late items can be stranded downstream",
             sitekey=fn.qname.split("::")[-2] + "::wait", why="every item must pass through every later stage before pipeline() returns")
    n += rethrow_last(R, "C27.wait-order")
    R.need("C27.wait-order", n, 3, "Pipe::wait functions with a downstream pipe")

    # ---- number of runners >= 1 ---------------------------------------------------------------------------------
    n = 0
    for fn in F.functions(qname="dispenso::detail::Pipe::execute"):
        if fn.params:
            continue  # item-taking execute(Input&&)
        # the loop that calls tasks_.schedule: its bound variable
        for b, t in fn.branch_blocks():
            c = strip_casts(t["cond"])
            if not (isinstance(c, dict) and c.get("k") == "bin" and c.get("op") == "<" and t.get("kind") == "ForStmt"):
                continue
            bound = strip_casts(c.get("r"))
            if not (isinstance(bound, dict) and bound.get("k") == "var"):
                continue
            n += 1
            defs = local_defs(fn, bound["vid"])
            lbs = [lower_bound(F, fn, d[1]) for d in defs if d[2] == "decl"]
            ok = bool(lbs) and all(x is not None and x >= 1 for x in lbs) and all(d[2] == "decl" for d in defs)
            R.ob("C27.runners", fn, t.get("loc"), ok, "runner count %s has lower bound %s" % (bound["name"], lbs),
                 sitekey="runners", why="with zero runners the stage never runs and pipeline() returns without producing anything (zero-thread pools are supported)")
    R.need("C27.runners", n, 2, "runner loops in generator / single-stage Pipe::execute")


def rethrow_last(R, inst):
    """Generator Pipe::wait(): the ConcurrentTaskSet wait rethrows a captured stage exception, so
    everything after it is skipped on that path; the downstream drain (which discards and releases
    the queued items when an exception is pending) has to come first. Shared by C27 and C29."""
    F = R.F
    n = 0
    for fn in F.fns:
        if not re.search(r"^dispenso::detail::(TransformPipe|Pipe)::wait$", fn.qname):
            continue
        nxt = [(p, e) for p, e in fn.events() if e.get("k") == "call" and e.get("name") == "wait" and (field_name(lvalue_path(F, fn, e.get("obj"))) or "").endswith("::pipeNext_")]
        rethrowing = [(p, e) for p, e in fn.events() if is_call(e, "dispenso::ConcurrentTaskSet::wait") or is_call(e, "dispenso::TaskSet::wait")]
        if not nxt or not rethrowing:
            continue
        n += 1
        ok2 = all(any(fn.dominates(np, p) for np, _ in nxt) for p, _ in rethrowing)
        R.ob(inst, fn, rethrowing[0][1], ok2, "downstream stages are drained before the task set's (rethrowing) wait" if ok2 else
             "the task set's wait(), which rethrows a stage exception, runs before the downstream drain: with an exception pending the queued items of later limited stages are never discarded (leaked)",
             sitekey=fn.qname.split("::")[-2] + "::wait:rethrow-last", why="an exception in a stage must leave nothing queued or allocated behind")
    return n
