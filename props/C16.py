"""C16 — parallel_invoke runs each functor exactly once (ownership clause).

Decided on every CFG path of every instantiation (arity 2..5 in drivers/misc.cpp, all scheduling
entry points of the task sets):
  C16.linear       K5 on every functor parameter of parallel_invoke: the first functor is forwarded to
                   tasks.schedule exactly once, the remaining ones are forwarded exactly once to the
                   recursive call with one argument fewer, and the base case invokes its functor
                   directly (on the calling thread) exactly once.
  C16.sched-linear K5 on the functor parameter of every TaskSet / ConcurrentTaskSet scheduling entry
                   point (schedule, schedulePlaced, both ForceQueuingTag forms): on every path the
                   functor is either run inline once or packaged and handed to the pool once -- never
                   both, never twice -- except that it may be dropped on a path where the set was
                   observed cancelled.
  C16.last-on-caller the one-functor overload (the end of the recursion) contains no scheduling call:
                   the last functor runs on the calling thread before parallel_invoke returns.
  C16.wait-zero    (shared with C02) the task sets' wait() returns only on an edge where an acquire
                   load of the outstanding counter read zero; tryWait is true only then; the
                   destructors wait.
"""
import re
from lib import typestate
from lib.facts import strip_casts, strip_move, subexprs

ANCHOR_SOURCES = ["props/C02.py"]
LEVEL = "other"
EXPLANATION = __doc__
NOT_DECIDED = ["that the pool runs each queued functor (C01)"]
WHY = "each functor handed to parallel_invoke must be invoked exactly once"
ENTRY = ("schedule", "schedulePlaced", "parallel_invoke")


def run(R):
    F = R.F
    disposers = typestate.disposer_functions(F)
    n = 0
    nb = 0
    for fn in F.functions(qname="dispenso::parallel_invoke"):
        fp = {}
        for p in fn.params:
            if p.get("type", "").endswith("&&"):
                fp[p["vid"]] = p["name"]
        if not fp:
            continue
        n += 1
        L = typestate.Linear(F, fn, fp, allow_drop_when_cancelled=False, by_ref_params=fp.keys())
        vios, stats = L.run(owned_params=list(fp.keys()))
        R.paths_enumerated += stats["state_block_pairs"]
        names = ",".join(fp.values())
        if not vios:
            R.ob("C16.linear", fn, fn.loc, True, "%s: each consumed exactly once on every path (%d states)" % (names, stats["state_block_pairs"]), sitekey="arity%d" % len(fp), why=WHY)
        for v in vios:
            R.ob("C16.linear", fn, (v["ev"] or {}).get("loc") or fn.loc, False, v["msg"], sitekey="arity%d" % len(fp), why=WHY, path=fn.describe_path(v["trail"][-8:]))
        if len(fp) == 1:
            nb += 1
            sched = [e for _, e in fn.events() if e.get("k") == "call" and e.get("name") in ("schedule", "schedulePlaced", "scheduleBulk")]
            inv = [e for _, e in fn.events() if e.get("k") == "call" and e.get("opcall") == "()" and isinstance(strip_move(e.get("obj")), dict) and strip_move(e.get("obj")).get("vid") in fp]
            R.ob("C16.last-on-caller", fn, fn.loc, not sched and len(inv) == 1, "the last functor is invoked directly" if not sched and len(inv) == 1 else "the last functor is not run on the calling thread", sitekey="base-case", why="the last functor runs on the calling thread before returning")
    R.need("C16.linear", n, 3, "parallel_invoke instantiations")
    R.need("C16.last-on-caller", nb, 1, "one-functor base case")

    n = 0
    for fn in F.fns:
        if not re.search(r"^dispenso::(TaskSet|ConcurrentTaskSet)::schedule(Placed)?$", fn.qname):
            continue
        fp = typestate.functor_params(fn, forwarders=ENTRY)
        if not fp:
            continue
        n += 1
        L = typestate.Linear(F, fn, fp, allow_drop_when_cancelled=True, by_ref_params=fp.keys(), disposers=disposers)
        vios, stats = L.run(owned_params=list(fp.keys()))
        R.paths_enumerated += stats["state_block_pairs"]
        if not vios:
            R.ob("C16.sched-linear", fn, fn.loc, True, "functor run inline once or handed to the pool once on every path (%d states)" % stats["state_block_pairs"], sitekey=fn.qname.split("::")[-2] + "::" + fn.qname.split("::")[-1], why=WHY)
        for v in vios:
            R.ob("C16.sched-linear", fn, (v["ev"] or {}).get("loc") or fn.loc, False, v["msg"], sitekey=fn.qname.split("::")[-2] + "::" + fn.qname.split("::")[-1], why=WHY, path=fn.describe_path(v["trail"][-8:]))
    R.need("C16.sched-linear", n, 6, "task-set scheduling entry point instantiations")

    # "all of them have finished once the task set's wait() returns": the observation that ends wait()
    from props import C02 as _c02
    n = _c02.wait_zero(R, "C16.wait-zero", "every functor has finished (and its writes are visible) once the task set's wait() returns")
    R.need("C16.wait-zero", n, 6, "wait / tryWait / destructor of the task sets")
