"""C02 — task-set wait is a completion barrier (accounting clause).

Decided on every CFG path:
  C02.count-first   every hand-off of packaged work to the pool is preceded by the increment of the
                    set's outstanding counter: packageTask increments before it returns its wrapper;
                    each bulk hand-off (scheduleBulkEnqueue / scheduleBulkToRings / scheduleBulkPlaced)
                    is dominated, in the same loop iteration, by fetch_add of the *same count*;
                    packageTaskNoIncrement is used only inside generators of such bulk hand-offs;
                    Future constructors / thenImpl for task sets increment before they schedule or
                    register the continuation.
  C02.packaged      every pool_.schedule / schedulePlaced call in a TaskSet / ConcurrentTaskSet method is
                    given packageTask(f), never the raw functor.
  C02.done-last     every packaged wrapper decrements the counter exactly once on every path, after
                    the body, with order >= release, and the body call sits inside a catch-all;
                    FutureImplBase::run publishes kReady before it decrements the set's counter.
  C02.wait-zero     TaskSet/ConcurrentTaskSet::wait return only on the edge where an acquire load of
                    the counter read zero; tryWait returns true only under that observation; the
                    destructors call wait().
"""
import re
from lib.facts import Pos, const_val, expr_str, is_call, order_at_least, strip_casts, strip_move, subexprs
from lib.rules import (atomic_ops, body_invocations, comparison_of, field_name, guard_in_same_iteration, is_atomic_node,
                       lvalue_path, same_value)

LEVEL = "other"
EXPLANATION = __doc__
NOT_DECIDED = ["that the pool runs every queued task (C01)", "interleavings", "exactly-once execution of a body inside the queues"]
CNT = "dispenso::TaskSetBase::outstandingTaskCount_"
BULK = re.compile(r"^dispenso::ThreadPool::(scheduleBulkEnqueue|scheduleBulkToRings|scheduleBulkPlaced)$")
WHY = "wait() returns when the counter reads zero: work must be counted before it can complete, and uncounted only after it has"


def is_cnt(F, fn, a):
    return a.field == CNT or (a.field or "").endswith("::taskSetCounter_")


def run(R):
    F = R.F
    # ---- count before hand-off ---------------------------------------------------------------------
    n = 0
    for fn in F.functions(qname="dispenso::TaskSetBase::packageTask"):
        incs = [a for a in atomic_ops(F, fn) if a.field == CNT and a.op == "fetch_add"]
        rets = [(p, e) for p, e in fn.events() if e.get("k") == "return"]
        n += 1
        ok = bool(incs) and const_val(incs[0].node["args"][0]) == 1 and all(fn.dominates(incs[0].pos, p) for p, _ in rets)
        R.ob("C02.count-first", fn, incs[0].node if incs else fn.loc, ok, "counter += 1 before the wrapper is returned" if ok else "packageTask can return a wrapper that is not counted", sitekey="packageTask", why=WHY)
    for fn in F.fns:
        if not fn.qname.startswith("dispenso::TaskSetBase::scheduleBulkImpl"):
            continue
        ops = atomic_ops(F, fn)
        incs = [a for a in ops if a.field == CNT and a.op == "fetch_add"]
        for pos, ev in fn.events():
            if is_call(ev, BULK) and ev.get("args"):
                n += 1
                cnt = ev["args"][0]
                good = [a for a in incs if fn.dominates(a.pos, pos) and same_value(a.node["args"][0], cnt)]
                # in the same iteration: the increment's lexical loop is the call's
                good = [a for a in good if (a.node.get("loop") or (fn.event_at(a.pos) or {}).get("loop")) == ev.get("loop")]
                R.ob("C02.count-first", fn, ev, bool(good), "fetch_add(%s) dominates %s(%s, ...)" % (expr_str(cnt), ev["name"], expr_str(cnt)) if good else
                     "%s hands %s tasks to the pool before they are counted" % (ev["name"], expr_str(cnt)), sitekey="bulk:" + ev["name"], why=WHY)
    # packageTaskNoIncrement only inside generators handed to a bulk call of a scheduleBulkImpl*
    for cfn in F.fns:
        for pos, ev in cfn.events():
            if is_call(ev, "dispenso::TaskSetBase::packageTaskNoIncrement"):
                n += 1
                par = cfn.parent
                ok = cfn.is_lambda and par is not None and par.qname.startswith("dispenso::TaskSetBase::scheduleBulkImpl")
                if ok:
                    ok = any(is_call(e2, BULK) and any(nn.get("k") == "lambda" and nn.get("fid") == cfn.id for nn in subexprs(e2)) for _, e2 in par.events())
                R.ob("C02.count-first", cfn, ev, ok, "used in the generator of a counted bulk hand-off" if ok else "packageTaskNoIncrement used where no batch increment covers it",
                     sitekey="noincrement-use", why=WHY)
    # futures registered with a task set
    for fn in F.fns:
        if fn.qname not in ("dispenso::detail::FutureBase::(ctor)", "dispenso::detail::FutureBase::thenImpl"):
            continue
        # task-set flavour: passes &x.outstandingTaskCount_ to createFutureImpl
        creates = [(p, e) for p, e in fn.all_nodes() if is_call(e, "dispenso::detail::createFutureImpl")]
        ts = [e for p, e in creates if any(nn.get("k") == "member" and nn.get("field") == CNT for nn in subexprs(e))]
        if not ts:
            continue
        incs = [a for a in atomic_ops(F, fn) if a.field == CNT and a.op == "fetch_add"]
        hand = [(p, e) for p, e in fn.events() if e.get("k") == "call" and (e.get("name") in ("schedule", "schedulePlaced", "addToThenChainOrExecute"))]
        n += 1
        ok = bool(incs) and bool(hand) and all(fn.dominates(incs[0].pos, p) for p, _ in hand)
        R.ob("C02.count-first", fn, incs[0].node if incs else fn.loc, ok, "set counter += 1 before the future is scheduled/registered (%d hand-offs)" % len(hand) if ok else
             "a future tied to a task set can be scheduled before the set counts it", sitekey="future:" + fn.qname.split("::")[-1], why=WHY)
    R.need("C02.count-first", n, 8, "hand-off sites")

    # ---- nothing reaches the pool uncounted ----------------------------------------------------------------
    # every functor a task set hands to its pool goes through packageTask (which counts it and whose
    # wrapper uncounts it); a raw functor given to pool_.schedule() runs, but wait() never hears of it
    n = 0
    POOLSINK = re.compile(r"^dispenso::ThreadPool::(schedule|schedulePlaced)$")
    for fn in F.fns:
        if fn.is_lambda or not re.match(r"^dispenso::(TaskSet|ConcurrentTaskSet|TaskSetBase)::", fn.qname):
            continue
        for pos, ev in fn.events():
            if not is_call(ev, POOLSINK):
                continue
            n += 1
            wrapped = any(isinstance(nn, dict) and nn.get("k") == "call" and nn.get("name") in ("packageTask",) for a in ev.get("args", []) for nn in subexprs(fn.expand_expr(a, use_block=pos.b)))
            R.ob("C02.packaged", fn, ev, wrapped, "%s receives packageTask(f)" % ev.get("name") if wrapped else
                 "%s is given the raw functor: the task runs but is never counted in outstandingTaskCount_, so wait()/tryWait()/the destructor can return while it is queued or running" % ev.get("name"),
                 sitekey="%s->%s" % (fn.qname.split("::")[-1], ev.get("name")), why=WHY)
    R.need("C02.packaged", n, 6, "pool hand-offs in TaskSet / ConcurrentTaskSet methods")

    # ---- decrement after the body ------------------------------------------------------------------------
    n = 0
    for fn in F.fns:
        if not (fn.is_lambda and fn.parent is not None and re.search(r"TaskSetBase::packageTask(NoIncrement)?$", fn.parent.qname)):
            continue
        decs = [a for a in atomic_ops(F, fn) if a.field == CNT and a.op == "fetch_sub"]
        bodies = body_invocations(fn, var_kinds=("initcapture", "captured"))
        n += 1
        ok = len(decs) == 1 and const_val(decs[0].node["args"][0]) == 1 and order_at_least(decs[0].success_order, "release")
        det = []
        if ok:
            # on every path from entry to exit (including the handler path)
            path = fn.path_to_exit_avoiding(Pos(fn.entry, -1), lambda p, e: p == decs[0].pos, extra_edges=fn.eh_edges())
            if path is not None:
                ok = False
                det.append("a path reaches the exit without the decrement")
            for p, e, v, via in bodies:
                if not fn.can_reach(p, decs[0].pos):
                    ok = False
                    det.append("decrement not after the body")
                t = e.get("try")
                tr = [x for x in fn.raw.get("tries", []) if x["id"] == t] if t else []
                if not (tr and any(h.get("all") for h in tr[0]["handlers"])):
                    ok = False
                    det.append("body call is not inside a catch-all (a throwing body skips the decrement)")
        else:
            det.append("%d decrement(s) of the counter%s" % (len(decs), "" if not decs else " [%s]" % decs[0].success_order))
        R.ob("C02.done-last", fn, decs[0].node if decs else fn.loc, ok and bool(bodies), "; ".join(det) or "body (inside catch-all) then exactly one release decrement on every path",
             sitekey="wrapper", why=WHY)
    for fn in F.functions(qname="dispenso::detail::FutureImplBase::run"):
        if not fn.params:
            continue
        decs = [a for a in atomic_ops(F, fn) if (a.field or "").endswith("taskSetCounter_") or (a.path or "").endswith("taskSetCounter_")]
        decs = [a for a in atomic_ops(F, fn) if a.op == "fetch_sub" and any(nn.get("k") == "member" and nn.get("fname") == "taskSetCounter_" for nn in subexprs(a.node.get("obj")))]
        nots = [(p, e) for p, e in fn.events() if is_call(e, "dispenso::detail::CompletionEventImpl::notify")]
        runs = [(p, e) for p, e in fn.events() if e.get("k") == "call" and e.get("name") == "runFunc"]
        n += 1
        ok = bool(decs) and bool(nots) and bool(runs) and fn.dominates(runs[0][0], nots[0][0]) and all(fn.dominates(nots[0][0], d.pos) for d in decs) and all(order_at_least(d.success_order, "release") for d in decs)
        R.ob("C02.done-last", fn, decs[0].node if decs else fn.loc, ok, "runFunc -> notify(kReady) -> set counter -= 1 (release)" if ok else "future's task-set decrement is not ordered after completion/readiness",
             sitekey="future-run", why="taskSet.wait() returning must imply the future is ready")
    R.need("C02.done-last", n, 3, "completion sites")

    # ---- wait observes zero --------------------------------------------------------------------------------------
    n = 0
    n = wait_zero(R, "C02.wait-zero", WHY)
    R.need("C02.wait-zero", n, 6, "wait / tryWait / destructor")


def wait_zero(R, inst, why):
    """TaskSet/ConcurrentTaskSet::wait return only on an edge where an *acquire* load of the outstanding
    counter read zero (that load is what orders the tasks' writes before the code after wait());
    tryWait returns true only under that observation; the destructors wait. Shared by C02 and C16."""
    F = R.F
    n = 0
    for q in ("dispenso::TaskSet::wait", "dispenso::ConcurrentTaskSet::wait"):
        for fn in F.functions(qname=q):
            n += 1
            rets = [(p, e) for p, e in fn.events() if e.get("k") == "return"]
            allok = bool(rets)
            det = []
            for p, e in rets:
                ok = False
                for at, pol, b in fn.guard_atoms(p):
                    a = strip_casts(at)
                    if is_atomic_node(F, fn, a, CNT, ("load", "operator(conv)")) and not pol and order_at_least(a["atomic"]["orders"][0], "acquire"):
                        ok = True
                    c = comparison_of(at, pol, lambda x: is_atomic_node(F, fn, x, CNT, ("load", "operator(conv)")))
                    if c and c[0] == "==" and const_val(c[1]) == 0 and order_at_least(strip_casts(c[2])["atomic"]["orders"][0], "acquire"):
                        ok = True
                allok = allok and ok
                det.append("return@%s %s" % (e.get("loc", "").rsplit(":", 2)[-2], "after acquire load == 0" if ok else "NOT guarded by counter == 0"))
            R.ob(inst, fn, fn.loc, allok, "; ".join(det), sitekey="wait", why=why)
    for q in ("dispenso::TaskSet::tryWait", "dispenso::ConcurrentTaskSet::tryWait"):
        for fn in F.functions(qname=q):
            n += 1
            rets = [(p, e) for p, e in fn.events() if e.get("k") == "return" and const_val(e.get("e")) != 0]
            allok = bool(rets)
            for p, e in rets:
                ok = False
                for at, pol, b in fn.guard_atoms(p):
                    a = strip_casts(at)
                    if is_atomic_node(F, fn, a, CNT, ("load", "operator(conv)")) and not pol and order_at_least(a["atomic"]["orders"][0], "acquire"):
                        ok = True
                allok = allok and ok
            R.ob(inst, fn, fn.loc, allok, "a possibly-true return is reached only after an acquire load of the counter read zero" if allok else "tryWait can return true with tasks outstanding",
                 sitekey="tryWait", why=why)
    for q in ("dispenso::TaskSet::(dtor)", "dispenso::ConcurrentTaskSet::(dtor)"):
        for fn in F.functions(qname=q):
            n += 1
            ws = [(p, e) for p, e in fn.events() if e.get("k") == "call" and e.get("name") == "wait"]
            ok = bool(ws) and fn.path_to_exit_avoiding(Pos(fn.entry, -1), lambda p, e: e.get("k") == "call" and e.get("name") == "wait") is None
            R.ob(inst, fn, fn.loc, ok, "destructor waits on every path" if ok else "destructor can return without waiting", sitekey="dtor", why=why)
    return n
