"""C37 — ConcurrentObjectArena growth and copies are exact (structural clauses).

Decided on every CFG path of the ConcurrentObjectArena instantiations:
  C37.count-bound   every loop whose induction variable indexes the buffer-pointer array (the T**
                    loaded from buffers_, a copy of it, or a freshly allocated one) is bounded by the
                    *count* buffersPos_, never by the capacity buffersSize_ (slots beyond the count
                    are uninitialised).
  C37.grow-order    grow_by: allocateBuffer() is called only while holding resizeMutex_; the new buffer
                    is published before the release store that enlarges allocatedSize_; objects are
                    constructed only after the compare-exchange that reserved the index range
                    succeeded; the reserved range is exactly the one constructed and returned.
  C37.alloc-slot    allocateBuffer stores the new buffer at index buffersPos_ (post-incremented) of the
                    live pointer array and publishes a replacement array with a release store.
  C37.swap-all      swap() exchanges all members that carry arena state (pos_, allocatedSize_,
                    buffers_, buffersSize_, buffersPos_, deleteLater_, the three geometry constants).
"""
import re
from lib.facts import Pos, const_val, expr_str, is_call, order_at_least, strip_casts, strip_move, subexprs
from lib.rules import atomic_ops, comparison_of, field_name, lvalue_path, natural_loops, same_value

LEVEL = "other"
EXPLANATION = __doc__
NOT_DECIDED = ["disjointness of concurrently returned ranges (needs the CAS atomicity argument)", "equality of contents after copy (a value property)"]
CLS = "dispenso::ConcurrentObjectArena"
WHY = "only the first buffersPos_ entries of the buffer-pointer array are valid"


def run(R):
    F = R.F
    n = 0
    for fn in F.functions(cls=CLS):
        # induction variables used as index into a T** array
        idx_vars = {}
        for pos, node in fn.all_nodes():
            if node.get("k") == "index":
                base = strip_casts(node.get("base"))
                bt = (base.get("ctype") or base.get("type") or "") if isinstance(base, dict) else ""
                i = strip_casts(node.get("idx"))
                if isinstance(i, dict) and i.get("k") == "var" and bt.replace(" ", "").endswith("**"):
                    idx_vars[i["vid"]] = i["name"]
        for b, t in fn.branch_blocks():
            if t.get("kind") not in ("ForStmt", "WhileStmt", "DoStmt"):
                continue
            for vid, name in idx_vars.items():
                c = comparison_of(t["cond"], True, lambda x: isinstance(x, dict) and x.get("k") == "var" and x.get("vid") == vid)
                if not c:
                    continue
                n += 1
                bound = strip_casts(fn.expand_expr(c[1], use_block=b))      # `const Index n = other.buffersPos_;`
                fld = bound.get("fname") if isinstance(bound, dict) and bound.get("k") == "member" else None
                ok = c[0] in ("<", "!=") and fld == "buffersPos_"
                R.ob("C37.count-bound", fn, t.get("loc"), ok, "loop over the buffer-pointer array: %s %s %s" % (name, c[0], expr_str(bound)), sitekey="loop@" + fn.qname.split("::")[-1], why=WHY)
    R.need("C37.count-bound", n, 2, "loops over the buffer-pointer array (copy constructor, destructor)")

    n = 0
    for fn in F.functions(qname=CLS + "::grow_by"):
        ops = atomic_ops(F, fn)
        allocs = [(p, e) for p, e in fn.events() if e.get("k") == "call" and e.get("name") == "allocateBuffer"]
        locks = [(p, e) for p, e in fn.events() if e.get("k") == "decl" and "lock_guard" in e.get("type", "")]
        unlocks = [(p, e) for p, e in fn.events() if e.get("k") == "autodtor" and "lock_guard" in e.get("type", "")]
        stores = [a for a in ops if (a.field or "").endswith("::allocatedSize_") and a.op == "store"]
        cas = [(p, nd) for p, nd in fn.all_nodes() if nd.get("k") == "call" and (nd.get("callee") or "").startswith("std::atomic_compare_exchange")]
        cas += [(a.pos, a.node) for a in ops if (a.field or "").endswith("::pos_") and a.op.startswith("compare_exchange")]
        cons = [(p, e) for p, e in fn.events() if e.get("k") == "call" and e.get("name") == "constructObjects"]
        n += 1
        ok = bool(allocs) and bool(locks) and bool(stores) and bool(cons) and bool(cas)
        det = []
        if ok:
            for p, e in allocs:
                if not any(fn.dominates(lp, p) for lp, _ in locks):
                    ok = False
                    det.append("allocateBuffer() without holding resizeMutex_")
                if any(fn.can_reach(up, p) and not any(fn.can_reach(up, lp) and fn.can_reach(lp, p) for lp, _ in locks) for up, _ in unlocks):
                    ok = False
                    det.append("allocateBuffer() reachable after the lock is released")
                if not any(fn.dominates(p, s.pos) and order_at_least(s.success_order, "release") for s in stores):
                    ok = False
                    det.append("allocatedSize_ not release-stored after the buffer is published")
            for s in stores:
                if not any(fn.dominates(p, s.pos) for p, _ in allocs):
                    ok = False
                    det.append("allocatedSize_ enlarged before a buffer exists")
            # the lock-free capacity check is what licenses indexing the buffer-pointer array without the
            # mutex: it must acquire what the resizing thread released (buffer pointer written, then size)
            for a in ops:
                if (a.field or "").endswith("::allocatedSize_") and a.op == "load" and not any(fn.dominates(lp, a.pos) for lp, _ in locks):
                    if not order_at_least(a.success_order, "acquire"):
                        ok = False
                        det.append("the lock-free load of allocatedSize_ is %s: a grower that sees the enlarged size may still read a stale buffer pointer" % a.success_order)
            # constructObjects only after the reserving CAS succeeded = after the do-while is left
            for p, e in cons:
                if not all(fn.dominates(cp, p) for cp, _ in cas):
                    ok = False
                    det.append("objects constructed before the range was reserved")
        R.ob("C37.grow-order", fn, fn.loc, ok, "; ".join(sorted(set(det))) or "lock -> allocateBuffer -> release store allocatedSize_ ; CAS reserves -> constructObjects", sitekey="grow_by",
             why="readers index buffers below allocatedSize_ without a lock; elements must be constructed by the thread that reserved them")
    for fn in F.functions(qname=CLS + "::allocateBuffer"):
        n += 1
        writes = []
        for p, e in fn.events():
            if e.get("k") == "bin" and e.get("op") == "=":
                l = strip_casts(e.get("l"))
                if isinstance(l, dict) and l.get("k") == "index":
                    i = strip_casts(l.get("idx"))
                    writes.append((p, e, isinstance(i, dict) and i.get("k") == "un" and i.get("op") == "++" and i.get("postfix") and strip_casts(i.get("e")).get("fname") == "buffersPos_"))
        pub = [a for a in atomic_ops(F, fn) if (a.field or "").endswith("::buffers_") and a.op == "store"]
        ok = len(writes) >= 1 and all(w[2] for w in writes) and all(order_at_least(a.success_order, "release") for a in pub) and bool(pub)
        R.ob("C37.alloc-slot", fn, fn.loc, ok, "%d slot write(s) at [buffersPos_++]; replacement array published with release" % len(writes) if ok else "new buffer not stored at the count index / array not release-published",
             sitekey="allocateBuffer", why=WHY)
    R.need("C37.grow-order/alloc-slot", n, 2, "grow_by and allocateBuffer")

    n = 0
    need = {"pos_", "allocatedSize_", "buffers_", "buffersSize_", "buffersPos_", "deleteLater_", "kLog2BuffSize", "kBufferSize", "kMask"}
    for fn in F.functions(qname="dispenso::swap"):
        if not fn.params or "ConcurrentObjectArena" not in fn.params[0].get("type", ""):
            continue
        n += 1
        touched = {}
        for pos, node in fn.all_nodes():
            if node.get("k") == "member" and node.get("field", "").startswith(CLS + "::"):
                b = strip_casts(node.get("base"))
                touched.setdefault(node["fname"], set()).add(b.get("vid") if isinstance(b, dict) else None)
        missing = sorted(f for f in need if len(touched.get(f, ())) < 2)
        R.ob("C37.swap-all", fn, fn.loc, not missing, "all nine state members are exchanged" if not missing else "swap() does not exchange: %s" % ",".join(missing), sitekey="swap",
             why="copy/move assignment are implemented through swap; a member left behind mixes two arenas")
    R.need("C37.swap-all", n, 1, "swap(ConcurrentObjectArena&, ConcurrentObjectArena&)")
