"""C08 — pool work accounting returns to zero at quiescence.

Decided: the pairing of ThreadPool::workRemaining_ updates with the hand-over of tasks, on every
CFG path of the pool's own functions:
  C08.run-dec      every site in a ThreadPool method (other than the destructor, whose counter dies
                   with the pool) that runs a task taken out of a pool container is followed on
                   every path by exactly the matching decrement: executeNext() (run; -1), or the
                   worker loop's batched counter (see C08.batch).
  C08.batch        threadLoopImpl: abstract states {nothing pending, pending, flushed} of the local
                   batch counter, explored over all paths: every successful
                   tryFindAndExecuteWork() increments the batch counter, a pending count is
                   subtracted from workRemaining_ before the counter is reset or the function is
                   left, and nothing is subtracted twice.
  C08.enq-inc      every hand-over to a queue/ring tier (scheduleImpl, scheduleImplPlaced,
                   enqueue_bulk, ring pushes of the bulk ring path) is dominated by an increment of
                   workRemaining_; for the bulk forms the incremented amount is the count handed on.
  C08.inc-handoff  conversely, every `workRemaining_ += 1` is followed on every path by a hand-over to a
                   queue/ring tier (or a compensating decrement).
  C08.fail-undo    the allocation-failure path of the bulk enqueue subtracts the amount it added.
"""
import re
from lib import dataflow
from lib.facts import Pos, const_val, expr_str, is_call, strip_casts, subexprs
from lib.rules import atomic_ops, body_invocations, same_value, strip_move, comparison_of

LEVEL = "other"
EXPLANATION = __doc__
NOT_DECIDED = ["that the counter is exactly zero at quiescence as a number (needs the interleaving semantics of the queues)", "moodycamel queue internals"]
WR = "dispenso::ThreadPool::workRemaining_"
WHY = "workRemaining_ decides between running new work inline and queuing it; an unpaired update drifts for the life of the pool"


def is_dec(a):
    if a.field != WR:
        return False
    if a.op == "fetch_sub":
        return True
    if a.op == "fetch_add":
        v = const_val(a.node["args"][0])
        return v is not None and v < 0
    return a.op in ("operator--", "operator-=")


def is_inc(a):
    if a.field != WR:
        return False
    if a.op == "fetch_add":
        v = const_val(a.node["args"][0])
        return v is None or v > 0
    return a.op in ("operator++", "operator+=")


def run(R):
    F = R.F
    pool_fns = [f for f in F.fns if f.root_parent().cls == "dispenso::ThreadPool" or f.cls == "dispenso::ThreadPool"]
    n_run = 0
    for fn in pool_fns:
        if fn.qname == "dispenso::ThreadPool::(dtor)":
            continue
        ops = atomic_ops(F, fn)
        decs = {a.pos for a in ops if is_dec(a)}
        for pos, ev, var, via in body_invocations(fn, var_kinds=("local", "param")):
            # a task owned by this function by value (popped into a local, or handed over by value)
            if (var.get("ctype") or "") != "dispenso::OnceFunction":
                continue
            n_run += 1
            key = "run:%s()" % var.get("name")
            if fn.qname == "dispenso::ThreadPool::tryFindAndExecuteWork":
                # accounted by the caller's batch counter: the site must lead to 'return true'
                def is_ret_true(p, e):
                    return e.get("k") == "return" and const_val(e.get("e")) == 1
                path = fn.path_to_exit_avoiding(pos, is_ret_true)
                R.ob("C08.run-dec", fn, ev, path is None,
                     "task run is reported to the worker loop by 'return true' on every path" if path is None else "a path runs the task and does not return true (the batch counter misses it)",
                     sitekey=key, why=WHY, path=fn.describe_path(path) if path else None)
                continue
            path = fn.path_to_exit_avoiding(pos, lambda p, e: p in decs)
            R.ob("C08.run-dec", fn, ev, path is None,
                 "followed by a workRemaining_ decrement on every path" if path is None else "task run without decrementing workRemaining_",
                 sitekey=key, why=WHY, path=fn.describe_path(path) if path else None)
        # tasks passed to executeNext are accounted there; tasks run directly are covered above
    R.need("C08.run-dec", n_run, 6, "sites that run a dequeued OnceFunction in ThreadPool methods")

    # ---- batch counter in threadLoopImpl -------------------------------------------------------
    nb = 0
    for fn in F.functions(qname="dispenso::ThreadPool::threadLoopImpl"):
        ops = atomic_ops(F, fn)
        flushes = {}
        batch_vid = None
        for a in ops:
            if is_dec(a):
                arg = strip_casts(a.node["args"][0])
                if isinstance(arg, dict) and arg.get("k") == "var":
                    flushes[a.node["sid"]] = arg.get("vid")
                    batch_vid = arg.get("vid")
        if batch_vid is None:
            R.ob("C08.batch", fn, fn.loc, False, "no workRemaining_ decrement by a local batch counter found", sitekey="batch", why=WHY)
            continue
        nb += 1
        tf_sids = set()
        for b, t in fn.branch_blocks():
            for n in subexprs(t["cond"]):
                if is_call(n, "dispenso::ThreadPool::tryFindAndExecuteWork"):
                    tf_sids.add((b, n["sid"]))
        tf_blocks = {b for b, _ in tf_sids}

        # state: (pending: 'Z'|'P'|'F', owe: bool) ; owe = a successful find not yet counted
        def transfer(pos, ev, st):
            pend, owe = st
            k = ev.get("k")
            if k == "decl" and ev.get("vid") == batch_vid:
                if pend == "P":
                    raise dataflow.Violation("batch counter re-initialised while a count is pending (lost decrement)")
                return ("Z", owe)
            if k == "un" and ev.get("op") in ("++",) and strip_casts(ev.get("e")).get("vid") == batch_vid:
                if pend == "F":
                    raise dataflow.Violation("batch counter incremented after it was flushed but before it was reset (double decrement)")
                return ("P", False)
            if k == "bin" and ev.get("op") == "=" and strip_casts(ev.get("l")).get("vid") == batch_vid:
                if const_val(ev.get("r")) == 0:
                    if pend == "P":
                        raise dataflow.Violation("batch counter reset while a count is pending (lost decrement)")
                    return ("Z", owe)
                return (pend, owe)
            if k == "call" and ev.get("sid") in flushes:
                if pend == "F":
                    raise dataflow.Violation("pending count subtracted twice")
                return ("F" if pend == "P" else pend, owe)
            if owe and k in ("call",) and is_call(ev, "dispenso::ThreadPool::tryFindAndExecuteWork"):
                raise dataflow.Violation("a successful tryFindAndExecuteWork() was not counted before the next attempt")
            return st

        def refine(cond, pol, st, b):
            pend, owe = st
            c = comparison_of(cond, pol, lambda x: isinstance(x, dict) and x.get("k") == "var" and x.get("vid") == batch_vid)
            if c:
                op, other, _ = c
                v = const_val(other)
                if v is not None:
                    if op == ">" and v >= 0 and pend == "Z":
                        return None
                    if op == ">=" and v >= 1 and pend == "Z":
                        return None
                    if op in ("<=",) and v == 0 and pend in ("P", "F"):
                        return None
                    if op in ("==",) and v == 0 and pend in ("P", "F"):
                        return None
                    if op in ("!=",) and v == 0 and pend == "Z":
                        return None
            if b in tf_blocks and pol:
                # true edge of the tryFindAndExecuteWork() test
                if any(n.get("sid") in {s for bb, s in tf_sids if bb == b} for n in subexprs(cond)):
                    return (pend, True)
            return st

        def at_exit(st):
            pend, owe = st
            if pend == "P":
                return "function exit with a pending (unsubtracted) batch count"
            if owe:
                return "function exit after a successful find that was never counted"
            return None

        vios, stats = dataflow.run(fn, ("Z", False), transfer, refine, at_exit)
        R.paths_enumerated += stats["state_block_pairs"]
        if not vios:
            R.ob("C08.batch", fn, fn.loc, True, "all %d (block,state) pairs explored: every successful find is counted and every pending count is subtracted once" % stats["state_block_pairs"],
                 sitekey="batch", why=WHY)
        for v in vios:
            R.ob("C08.batch", fn, (v["ev"] or {}).get("loc") or fn.loc, False, v["msg"], sitekey="batch", why=WHY, path=fn.describe_path(v["trail"][-12:]))
    R.need("C08.batch", nb, 1, "threadLoopImpl instantiations with a batch counter")

    # ---- enqueue dominated by increment -----------------------------------------------------------
    ne = 0
    SINKS = re.compile(r"^dispenso::ThreadPool::(scheduleImpl|scheduleImplPlaced)$")
    for fn in pool_fns:
        ops = atomic_ops(F, fn)
        incs = [a for a in ops if is_inc(a)]
        for pos, ev in fn.events():
            if is_call(ev, SINKS):
                ne += 1
                ok = any(fn.dominates(a.pos, pos) for a in incs)
                R.ob("C08.enq-inc", fn, ev, ok, "%s dominated by workRemaining_ increment" % ev["name"] if ok else "%s reached without incrementing workRemaining_" % ev["name"],
                     sitekey="sink:" + ev["name"], why=WHY)
    for q, sink_rx in (("dispenso::ThreadPool::scheduleBulkEnqueue", re.compile(r"::enqueue_bulk$")),
                       ("dispenso::ThreadPool::scheduleBulkToRings", re.compile(r"^dispenso::ThreadPool::scheduleBulkToRings(FastPath|Batched)$"))):
        for fn in F.functions(qname=q):
            ops = atomic_ops(F, fn)
            incs = [a for a in ops if is_inc(a)]
            count_vid = fn.params[0]["vid"] if fn.params else None
            for pos, ev in fn.events():
                if is_call(ev, sink_rx):
                    ne += 1
                    good = [a for a in incs if fn.dominates(a.pos, pos) and any(n.get("k") == "var" and n.get("vid") == count_vid for n in subexprs(a.node["args"][0]))]
                    # the count handed on is the same parameter
                    passes_count = any(n.get("k") == "var" and n.get("vid") == count_vid for a_ in ev.get("args", []) for n in subexprs(a_))
                    ok = bool(good) and passes_count
                    R.ob("C08.enq-inc", fn, ev, ok, "increment by 'count' dominates the hand-over of 'count' tasks" if ok else "bulk hand-over not preceded by an increment of the same count",
                         sitekey="bulk:" + ev["name"], why=WHY)
    R.need("C08.enq-inc", ne, 5, "queue/ring hand-over sites")

    # ---- ... and conversely: a single-task increment is always followed by a hand-over --------------------
    # (an increment on a path that runs the functor inline and returns is never subtracted again)
    ni = 0
    for fn in pool_fns:
        for a in atomic_ops(F, fn):
            if not (is_inc(a) and a.node.get("args") and const_val(a.node["args"][0]) == 1):
                continue
            ni += 1
            def settles(p, e):
                if is_call(e, SINKS) or is_call(e, re.compile(r"::enqueue(_bulk)?$|::try_push(_batch)?$")):
                    return True
                return e.get("k") == "call" and "atomic" in e and any(x.pos == p and is_dec(x) for x in atomic_ops(F, fn))
            path = fn.path_to_exit_avoiding(a.pos, settles)
            R.ob("C08.inc-handoff", fn, a.node, path is None, "every path after workRemaining_ += 1 hands a task to a queue/ring tier" if path is None else
                 "workRemaining_ is incremented on a path that hands nothing to a queue (e.g. the zero-thread inline run): the count is never subtracted again", sitekey="inc1:" + fn.qname.split("::")[-1],
                 why=WHY, path=fn.describe_path(path) if path else None)
    R.need("C08.inc-handoff", ni, 1, "single-task increments of workRemaining_")

    # ---- failure undo ---------------------------------------------------------------------------------
    nf = 0
    for fn in F.functions(qname="dispenso::ThreadPool::scheduleBulkEnqueue"):
        ops = atomic_ops(F, fn)
        incs = [a for a in ops if is_inc(a)]
        decs = [a for a in ops if is_dec(a)]
        throws = [(p, e) for p, e in fn.events() if e.get("k") == "throw" or is_call(e, "abort") or is_call(e, "std::abort")]
        for p, e in throws:
            nf += 1
            ok = any(fn.dominates(d.pos, p) and incs and same_value(d.node["args"][0], incs[0].node["args"][0]) for d in decs)
            R.ob("C08.fail-undo", fn, e, ok, "the failure path subtracts the amount added" if ok else "failure path leaves workRemaining_ inflated",
                 sitekey="enqueue-failure", why=WHY)
    R.need("C08.fail-undo", nf, 1, "failure exits of scheduleBulkEnqueue")
