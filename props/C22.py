"""C22 — RWLock mutual exclusion and progress (rollback / pairing clauses only).

Decided on every CFG path of RWLockImpl (state machines explored exhaustively):
  C22.reader-entry  lock_shared / try_lock_shared: a reader count that was added is either validated
                    -- the result of *that* fetch_add had the writer bit clear -- or released through
                    readerRelease() before returning; success is reported only when validated; a
                    failed try leaves no count behind.
  C22.writer-try    try_lock clears the writer bit on failure iff this call set it, and succeeds only
                    after observing that no reader is left.
  C22.release       the reader count is decremented only in readerRelease (which wakes a draining
                    writer exactly when prev == kWriteBit|1) and lock_upgrade; unlock and the try_lock
                    rollback clear only the writer bit; waitForReaderDrain waits for the word to equal
                    kWriteBit.
  C22.word-updates  every access to the lock word in RWLockImpl is a load, fetch_add/sub/or/and or a
                    compare-exchange: a store/exchange/notify() would erase the count of a reader
                    that is between its speculative increment and the back-out.
  C22.transitions   lock = setWriteBit then drain; lock_upgrade = setWriteBit, drop own count, drain;
                    lock_downgrade = add own count, then clear only the writer bit -- in that order on
                    every path.
"""
from lib import rwlock_rules as rw

ANCHOR_SOURCES = ["lib/rwlock_rules.py"]
LEVEL = "other"
EXPLANATION = __doc__
NOT_DECIDED = ["mutual exclusion and progress under all interleavings (model checking territory)", "fairness"]
WHY = "a reader may proceed only if no writer held the lock when its count went in; otherwise it must take its count back out"


def run(R):
    n = rw.reader_entry(R, R.F, "C22.reader-entry", WHY)
    R.need("C22.reader-entry", n, 2, "lock_shared / try_lock_shared")
    n = rw.writer_try(R, R.F, "C22.writer-try", "a failed try_lock must leave no trace and must never release another writer's bit")
    R.need("C22.writer-try", n, 1, "RWLockImpl::try_lock")
    n = rw.release_rules(R, R.F, "C22.release", WHY)
    R.need("C22.release", n, 6, "release / drain sites")
    n = rw.word_updates(R, R.F, "C22.word-updates")
    R.need("C22.word-updates", n, 10, "accesses to the lock word in RWLockImpl")
    n = rw.transitions(R, R.F, "C22.transitions")
    R.need("C22.transitions", n, 3, "lock / lock_upgrade / lock_downgrade")
