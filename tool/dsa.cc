// dsa — dispenso static-analysis fact extractor (clang 14 libTooling).
//
// For one translation unit: parse with the given flags, and for every function definition whose
// (template-pattern) location lies under one of the --root prefixes (template *instantiations* and
// lambda call operators included, dependent patterns excluded) emit its clang::CFG as JSON:
// blocks, successor edges (true/false order, pruned edges = null), terminator condition as an
// expression tree, and the ordered list of "events" (calls with resolved callee, atomic operations
// with constant-evaluated memory orders, assignments, returns, new/delete, explicit and implicit
// destructor calls, lambda creations with capture lists, constructor initialisers).
// The deciding rules live in python (lib/), this binary only resolves the program.
//
// Nothing here executes analysed code.

#include "clang/AST/ASTConsumer.h"
#include "clang/AST/ASTContext.h"
#include "clang/AST/DeclCXX.h"
#include "clang/AST/DeclTemplate.h"
#include "clang/AST/ExprCXX.h"
#include "clang/AST/ParentMapContext.h"
#include "clang/AST/RecordLayout.h"
#include "clang/AST/RecursiveASTVisitor.h"
#include "clang/Analysis/CFG.h"
#include "clang/Frontend/CompilerInstance.h"
#include "clang/Frontend/FrontendAction.h"
#include "clang/Tooling/CommonOptionsParser.h"
#include "clang/Tooling/Tooling.h"
#include "llvm/Support/CommandLine.h"
#include "llvm/Support/JSON.h"
#include "llvm/Support/raw_ostream.h"

#include <map>
#include <set>
#include <string>
#include <unordered_map>
#include <vector>

using namespace clang;
namespace json = llvm::json;

static llvm::cl::OptionCategory DsaCat("dsa options");
static llvm::cl::opt<std::string> OutFile("dsa-out", llvm::cl::desc("output json"),
                                          llvm::cl::cat(DsaCat), llvm::cl::init("-"));
static llvm::cl::list<std::string> Roots("dsa-root", llvm::cl::desc("path prefix in scope"),
                                         llvm::cl::cat(DsaCat));
static llvm::cl::list<std::string> Excl("dsa-exclude", llvm::cl::desc("path prefix out of scope"),
                                        llvm::cl::cat(DsaCat));
static llvm::cl::opt<int> MaxDepth("dsa-depth", llvm::cl::desc("expr tree depth"),
                                   llvm::cl::cat(DsaCat), llvm::cl::init(9));

namespace {

struct Ctx {
  ASTContext* AC = nullptr;
  SourceManager* SM = nullptr;
  PrintingPolicy PP{LangOptions()};
  std::unordered_map<const Decl*, int> funcIds;
  std::unordered_map<const Decl*, int> varIds;
  std::set<const Decl*> done;
  json::Array functions;
  json::Array witnesses;
  json::Array records;
  std::set<const Decl*> recordsDone;
  int nextSid = 1;
};

std::string fileOf(Ctx& C, SourceLocation L) {
  if (L.isInvalid())
    return "";
  PresumedLoc P = C.SM->getPresumedLoc(C.SM->getExpansionLoc(L));
  if (P.isInvalid())
    return "";
  return P.getFilename();
}

std::string normPath(std::string p) {
  // collapse "/x/../" produced by -I/repo/dispenso/..
  for (;;) {
    size_t k = p.find("/../");
    if (k == std::string::npos || k == 0)
      break;
    size_t j = p.rfind('/', k - 1);
    if (j == std::string::npos)
      break;
    p.erase(j, k + 3 - j);
  }
  return p;
}

std::string locStr(Ctx& C, SourceLocation L) {
  if (L.isInvalid())
    return "";
  PresumedLoc P = C.SM->getPresumedLoc(C.SM->getExpansionLoc(L));
  if (P.isInvalid())
    return "";
  return normPath(P.getFilename()) + ":" + std::to_string(P.getLine()) + ":" +
      std::to_string(P.getColumn());
}

bool inScopeFile(const std::string& f0) {
  std::string f = normPath(f0);
  for (auto& e : Excl)
    if (f.compare(0, e.size(), e) == 0)
      return false;
  for (auto& r : Roots)
    if (f.compare(0, r.size(), r) == 0)
      return true;
  return false;
}

std::string typeStr(Ctx& C, QualType T) {
  if (T.isNull())
    return "";
  std::string s = T.getAsString(C.PP);
  if (s.size() > 240)
    s = s.substr(0, 240) + "...";
  return s;
}

// Qualified name without template arguments: dispenso::detail::FutureImplBase::run
std::string plainQName(const Decl* D);

std::string ctxName(const DeclContext* DC) {
  if (!DC)
    return "";
  if (isa<TranslationUnitDecl>(DC))
    return "";
  if (auto* LS = dyn_cast<LinkageSpecDecl>(DC))
    return ctxName(LS->getParent());
  if (auto* EC = dyn_cast<ExportDecl>(DC))
    return ctxName(EC->getParent());
  std::string parent = ctxName(DC->getParent());
  std::string me;
  if (auto* NS = dyn_cast<NamespaceDecl>(DC)) {
    if (NS->isAnonymousNamespace())
      me = "(anon)";
    else if (NS->isInline())
      return parent; // std::__cxx11 etc.
    else
      me = NS->getNameAsString();
  } else if (auto* RD = dyn_cast<CXXRecordDecl>(DC)) {
    if (RD->isLambda())
      me = "(lambda)";
    else if (RD->getIdentifier())
      me = RD->getNameAsString();
    else if (RD->isAnonymousStructOrUnion())
      return parent; // members of anonymous unions belong to the enclosing class
    else
      me = "(anon-record)";
  } else if (auto* RD2 = dyn_cast<RecordDecl>(DC)) {
    me = RD2->getIdentifier() ? RD2->getNameAsString() : "(anon-record)";
  } else if (auto* FD = dyn_cast<FunctionDecl>(DC)) {
    return plainQName(FD);
  } else if (auto* ED = dyn_cast<EnumDecl>(DC)) {
    if (!ED->isScoped())
      return parent;
    me = ED->getNameAsString();
  } else {
    return parent;
  }
  return parent.empty() ? me : parent + "::" + me;
}

std::string plainQName(const Decl* D) {
  auto* ND = dyn_cast<NamedDecl>(D);
  if (!ND)
    return "";
  std::string me;
  if (auto* FD = dyn_cast<FunctionDecl>(ND)) {
    if (isa<CXXConstructorDecl>(FD))
      me = "(ctor)";
    else if (isa<CXXDestructorDecl>(FD))
      me = "(dtor)";
    else if (auto* CV = dyn_cast<CXXConversionDecl>(FD))
      me = "operator(conv)";
    else if (FD->isOverloadedOperator())
      me = std::string("operator") + getOperatorSpelling(FD->getOverloadedOperator());
    else if (FD->getIdentifier())
      me = FD->getNameAsString();
    else
      me = FD->getNameAsString();
  } else if (ND->getIdentifier()) {
    me = ND->getNameAsString();
  } else {
    me = ND->getNameAsString();
  }
  std::string parent = ctxName(ND->getDeclContext());
  return parent.empty() ? me : parent + "::" + me;
}

const FunctionDecl* patternOf(const FunctionDecl* FD) {
  if (const FunctionDecl* P = FD->getTemplateInstantiationPattern())
    return P;
  return FD;
}

int funcId(Ctx& C, const FunctionDecl* FD) {
  auto it = C.funcIds.find(FD->getCanonicalDecl());
  if (it != C.funcIds.end())
    return it->second;
  int id = (int)C.funcIds.size() + 1;
  C.funcIds[FD->getCanonicalDecl()] = id;
  return id;
}

int varId(Ctx& C, const ValueDecl* VD) {
  const Decl* K = VD->getCanonicalDecl();
  auto it = C.varIds.find(K);
  if (it != C.varIds.end())
    return it->second;
  int id = (int)C.varIds.size() + 1;
  C.varIds[K] = id;
  return id;
}

const char* orderName(int64_t v) {
  switch (v) {
    case 0:
      return "relaxed";
    case 1:
      return "consume";
    case 2:
      return "acquire";
    case 3:
      return "release";
    case 4:
      return "acq_rel";
    case 5:
      return "seq_cst";
  }
  return "unknown";
}

bool isMemoryOrderType(QualType T) {
  T = T.getNonReferenceType().getUnqualifiedType();
  if (auto* ET = T->getAs<EnumType>()) {
    auto* ED = ET->getDecl();
    return ED->getIdentifier() && ED->getName() == "memory_order";
  }
  return false;
}

bool isAtomicRecord(const CXXRecordDecl* RD) {
  if (!RD || !RD->getIdentifier())
    return false;
  StringRef n = RD->getName();
  if (!(n == "atomic" || n == "__atomic_base" || n == "__atomic_float" || n == "atomic_flag" ||
        n == "__atomic_flag_base" || n == "atomic_bool"))
    return false;
  const DeclContext* DC = RD->getDeclContext();
  while (DC && !isa<NamespaceDecl>(DC) && !isa<TranslationUnitDecl>(DC))
    DC = DC->getParent();
  while (DC && isa<NamespaceDecl>(DC)) {
    auto* NS = cast<NamespaceDecl>(DC);
    if (NS->getIdentifier() && NS->getName() == "std" && isa<TranslationUnitDecl>(NS->getParent()))
      return true;
    DC = DC->getParent();
  }
  return false;
}

struct FnWalk {
  // lexical context maps for one function body
  std::unordered_map<const Stmt*, int> tryOf, catchOf, loopOf;
  std::vector<const LambdaExpr*> lambdas;
  int nTry = 0, nLoop = 0;
  json::Array tries;
  json::Array loops;
};

void lexWalk(Ctx& C, FnWalk& W, const Stmt* S, int curTry, int curCatch, int curLoop) {
  if (!S)
    return;
  if (curTry)
    W.tryOf[S] = curTry;
  if (curCatch)
    W.catchOf[S] = curCatch;
  if (curLoop)
    W.loopOf[S] = curLoop;
  if (auto* LE = dyn_cast<LambdaExpr>(S)) {
    W.lambdas.push_back(LE);
    // capture initialisers are evaluated in the enclosing function
    for (auto it = LE->capture_init_begin(); it != LE->capture_init_end(); ++it)
      lexWalk(C, W, *it, curTry, curCatch, curLoop);
    return; // body belongs to the call operator
  }
  if (auto* TS = dyn_cast<CXXTryStmt>(S)) {
    int id = ++W.nTry;
    json::Object t;
    t["id"] = id;
    t["loc"] = locStr(C, TS->getBeginLoc());
    json::Array hs;
    lexWalk(C, W, TS->getTryBlock(), id, curCatch, curLoop);
    for (unsigned i = 0; i < TS->getNumHandlers(); ++i) {
      const CXXCatchStmt* H = TS->getHandler(i);
      json::Object h;
      h["all"] = H->getExceptionDecl() == nullptr;
      h["type"] = H->getExceptionDecl() ? typeStr(C, H->getCaughtType()) : "...";
      hs.push_back(std::move(h));
      // catch id == try id (handlers of try #id)
      lexWalk(C, W, H->getHandlerBlock(), curTry, id, curLoop);
    }
    t["handlers"] = std::move(hs);
    W.tries.push_back(std::move(t));
    return;
  }
  if (isa<WhileStmt>(S) || isa<ForStmt>(S) || isa<DoStmt>(S) || isa<CXXForRangeStmt>(S)) {
    int id = ++W.nLoop;
    json::Object l;
    l["id"] = id;
    l["kind"] = S->getStmtClassName();
    l["loc"] = locStr(C, S->getBeginLoc());
    l["parent"] = curLoop;
    W.loops.push_back(std::move(l));
    for (const Stmt* K : S->children())
      lexWalk(C, W, K, curTry, curCatch, id);
    return;
  }
  for (const Stmt* K : S->children())
    lexWalk(C, W, K, curTry, curCatch, curLoop);
}

struct ExprSer {
  Ctx& C;
  FnWalk* W;
  const FunctionDecl* curFn;
  std::unordered_map<const Stmt*, int> sids;

  int sidOf(const Stmt* S) {
    auto it = sids.find(S);
    if (it != sids.end())
      return it->second;
    int id = C.nextSid++;
    sids[S] = id;
    return id;
  }

  static const Expr* strip(const Expr* E) {
    for (;;) {
      if (!E)
        return E;
      if (auto* P = dyn_cast<ParenExpr>(E)) {
        E = P->getSubExpr();
        continue;
      }
      if (auto* IC = dyn_cast<ImplicitCastExpr>(E)) {
        if (IC->getCastKind() == CK_UserDefinedConversion)
          return E; // handled by the inner member call
        E = IC->getSubExpr();
        continue;
      }
      if (auto* X = dyn_cast<ExprWithCleanups>(E)) {
        E = X->getSubExpr();
        continue;
      }
      if (auto* X = dyn_cast<MaterializeTemporaryExpr>(E)) {
        E = X->getSubExpr();
        continue;
      }
      if (auto* X = dyn_cast<CXXBindTemporaryExpr>(E)) {
        E = X->getSubExpr();
        continue;
      }
      if (auto* X = dyn_cast<ConstantExpr>(E)) {
        E = X->getSubExpr();
        continue;
      }
      if (auto* X = dyn_cast<SubstNonTypeTemplateParmExpr>(E)) {
        E = X->getReplacement();
        continue;
      }
      if (auto* X = dyn_cast<CXXDefaultArgExpr>(E)) {
        E = X->getExpr();
        continue;
      }
      if (auto* X = dyn_cast<CXXDefaultInitExpr>(E)) {
        E = X->getExpr();
        continue;
      }
      return E;
    }
  }

  void addConst(json::Object& o, const Expr* E) {
    if (!E || E->isValueDependent() || E->isTypeDependent())
      return;
    if (!E->getType()->isIntegralOrEnumerationType())
      return;
    Expr::EvalResult R;
    if (E->EvaluateAsInt(R, *C.AC, Expr::SE_NoSideEffects)) {
      llvm::APSInt v = R.Val.getInt();
      if (v.isSigned() || v.getActiveBits() <= 63)
        o["cv"] = (int64_t)v.getExtValue();
      else
        o["cvu"] = llvm::toString(v, 10);
    }
  }

  json::Value varNode(const ValueDecl* D, const DeclRefExpr* DRE) {
    json::Object o;
    if (auto* VD = dyn_cast<VarDecl>(D)) {
      o["k"] = "var";
      o["name"] = VD->getNameAsString();
      o["vid"] = varId(C, VD);
      o["type"] = typeStr(C, VD->getType());
      o["ctype"] = typeStr(C, VD->getType().getCanonicalType());
      std::string kind;
      bool foreign = false;
      if (DRE && DRE->refersToEnclosingVariableOrCapture())
        foreign = true;
      if (isa<ParmVarDecl>(VD))
        kind = "param";
      else if (VD->isInitCapture())
        kind = "initcapture";
      else if (VD->hasGlobalStorage()) {
        kind = VD->getTLSKind() != VarDecl::TLS_None
            ? "tls"
            : (VD->isStaticLocal() ? "staticlocal"
                                   : (VD->isStaticDataMember() ? "staticmember" : "global"));
        o["qname"] = plainQName(VD);
      } else
        kind = "local";
      if (foreign)
        o["captured"] = true;
      o["vk"] = kind;
      if (VD->getType()->isReferenceType())
        o["isref"] = true;
    } else if (auto* FD = dyn_cast<FunctionDecl>(D)) {
      o["k"] = "fnref";
      o["qname"] = plainQName(FD);
    } else if (auto* EC = dyn_cast<EnumConstantDecl>(D)) {
      o["k"] = "int";
      o["name"] = plainQName(EC);
      o["cv"] = (int64_t)EC->getInitVal().getExtValue();
    } else if (auto* BD = dyn_cast<BindingDecl>(D)) {
      o["k"] = "var";
      o["name"] = BD->getNameAsString();
      o["vid"] = varId(C, BD);
      o["vk"] = "binding";
      o["type"] = typeStr(C, BD->getType());
    } else {
      o["k"] = "decl";
      o["name"] = D->getNameAsString();
    }
    return std::move(o);
  }

  json::Value calleeInfo(json::Object& o, const FunctionDecl* FD) {
    o["callee"] = plainQName(FD);
    o["name"] = FD->getIdentifier() ? FD->getNameAsString()
                                    : (FD->isOverloadedOperator()
                                           ? std::string("operator") +
                                               getOperatorSpelling(FD->getOverloadedOperator())
                                           : FD->getNameAsString());
    const FunctionDecl* P = patternOf(FD);
    o["cloc"] = locStr(C, P->getLocation());
    if (auto* Args = FD->getTemplateSpecializationArgs()) {
      std::string s;
      llvm::raw_string_ostream os(s);
      printTemplateArgumentList(os, Args->asArray(), C.PP);
      os.flush();
      if (s.size() > 300)
        s = s.substr(0, 300) + "...";
      o["targs"] = s;
      // integral template args, constant
      json::Array ia;
      for (auto& A : Args->asArray()) {
        if (A.getKind() == TemplateArgument::Integral)
          ia.push_back((int64_t)A.getAsIntegral().getExtValue());
        else if (A.getKind() == TemplateArgument::Type)
          ia.push_back(typeStr(C, A.getAsType()));
        else
          ia.push_back(nullptr);
      }
      o["targv"] = std::move(ia);
    }
    if (FD->hasBody() || patternOf(FD)->hasBody())
      o["fid"] = funcId(C, FD);
    if (auto* MD = dyn_cast<CXXMethodDecl>(FD)) {
      o["cls"] = ctxName(MD->getParent());
      if (MD->isVirtual())
        o["virtual"] = true;
      if (MD->isStatic())
        o["static"] = true;
    }
    if (FD->isNoReturn())
      o["noreturn"] = true;
    return nullptr;
  }

  json::Array paramTypes(const FunctionDecl* FD) {
    json::Array a;
    for (auto* P : FD->parameters())
      a.push_back(typeStr(C, P->getType()));
    return a;
  }

  void atomicInfo(json::Object& o, const FunctionDecl* FD, llvm::ArrayRef<const Expr*> args) {
    // orders
    json::Array orders;
    unsigned n = FD->getNumParams();
    for (unsigned i = 0; i < n; ++i) {
      if (!isMemoryOrderType(FD->getParamDecl(i)->getType()))
        continue;
      const Expr* A = i < args.size() ? args[i] : nullptr;
      if (!A) {
        orders.push_back("seq_cst");
        continue;
      }
      const Expr* S = strip(A);
      Expr::EvalResult R;
      if (S && !S->isValueDependent() && S->EvaluateAsInt(R, *C.AC, Expr::SE_NoSideEffects))
        orders.push_back(orderName(R.Val.getInt().getExtValue()));
      else
        orders.push_back("dynamic");
    }
    std::string op;
    if (FD->isOverloadedOperator())
      op = std::string("operator") + getOperatorSpelling(FD->getOverloadedOperator());
    else if (isa<CXXConversionDecl>(FD))
      op = "load";
    else
      op = FD->getNameAsString();
    bool hasOrderParam = false;
    for (unsigned i = 0; i < n; ++i)
      if (isMemoryOrderType(FD->getParamDecl(i)->getType()))
        hasOrderParam = true;
    if (!hasOrderParam && orders.empty())
      orders.push_back("seq_cst");
    json::Object a;
    a["op"] = op;
    a["orders"] = std::move(orders);
    o["atomic"] = std::move(a);
  }

  json::Value ser(const Expr* E0, int depth) {
    const Expr* E = strip(E0);
    if (!E)
      return nullptr;
    json::Object o;
    o["sid"] = sidOf(E);
    if (depth <= 0) {
      o["k"] = "deep";
      o["cls"] = E->getStmtClassName();
      return std::move(o);
    }
    auto kid = [&](const Expr* K) { return ser(K, depth - 1); };

    if (auto* IL = dyn_cast<IntegerLiteral>(E)) {
      o["k"] = "int";
      o["cv"] = (int64_t)IL->getValue().getLimitedValue();
      return std::move(o);
    }
    if (auto* BL = dyn_cast<CXXBoolLiteralExpr>(E)) {
      o["k"] = "int";
      o["cv"] = (int64_t)(BL->getValue() ? 1 : 0);
      o["bool"] = true;
      return std::move(o);
    }
    if (isa<CXXNullPtrLiteralExpr>(E) || isa<GNUNullExpr>(E)) {
      o["k"] = "null";
      return std::move(o);
    }
    if (isa<CXXThisExpr>(E)) {
      o["k"] = "this";
      return std::move(o);
    }
    if (auto* DRE = dyn_cast<DeclRefExpr>(E)) {
      json::Value v = varNode(DRE->getDecl(), DRE);
      json::Object* vo = v.getAsObject();
      (*vo)["sid"] = sidOf(E);
      if (auto* VD = dyn_cast<VarDecl>(DRE->getDecl()))
        if (VD->getType().isConstQualified() || VD->isConstexpr())
          addConst(*vo, E);
      return v;
    }
    if (auto* ME = dyn_cast<MemberExpr>(E)) {
      const ValueDecl* MD = ME->getMemberDecl();
      if (auto* FD = dyn_cast<FieldDecl>(MD)) {
        o["k"] = "member";
        o["field"] = ctxName(FD->getParent()) + "::" + FD->getNameAsString();
        o["fname"] = FD->getNameAsString();
        o["type"] = typeStr(C, FD->getType());
        o["ctype"] = typeStr(C, FD->getType().getCanonicalType());
        o["base"] = kid(ME->getBase());
        if (ME->isArrow())
          o["arrow"] = true;
        return std::move(o);
      }
      if (auto* VD = dyn_cast<VarDecl>(MD)) { // static member via object
        json::Value v = varNode(VD, nullptr);
        (*v.getAsObject())["sid"] = sidOf(E);
        addConst(*v.getAsObject(), E);
        return v;
      }
      o["k"] = "memberfn";
      o["name"] = MD->getNameAsString();
      o["base"] = kid(ME->getBase());
      return std::move(o);
    }
    if (auto* UO = dyn_cast<UnaryOperator>(E)) {
      o["k"] = "un";
      o["op"] = UnaryOperator::getOpcodeStr(UO->getOpcode()).str();
      if (UO->isPostfix())
        o["postfix"] = true;
      o["e"] = kid(UO->getSubExpr());
      addConst(o, E);
      return std::move(o);
    }
    if (auto* BO = dyn_cast<BinaryOperator>(E)) {
      o["k"] = "bin";
      o["op"] = BO->getOpcodeStr().str();
      o["l"] = kid(BO->getLHS());
      o["r"] = kid(BO->getRHS());
      o["type"] = typeStr(C, BO->getType());
      if (!BO->isAssignmentOp())
        addConst(o, E);
      return std::move(o);
    }
    if (auto* CO = dyn_cast<AbstractConditionalOperator>(E)) {
      o["k"] = "cond";
      o["c"] = kid(CO->getCond());
      o["t"] = kid(CO->getTrueExpr());
      o["f"] = kid(CO->getFalseExpr());
      addConst(o, E);
      return std::move(o);
    }
    if (auto* AS = dyn_cast<ArraySubscriptExpr>(E)) {
      o["k"] = "index";
      o["base"] = kid(AS->getBase());
      o["idx"] = kid(AS->getIdx());
      return std::move(o);
    }
    if (auto* LE = dyn_cast<LambdaExpr>(E)) {
      o["k"] = "lambda";
      const CXXMethodDecl* CO = LE->getCallOperator();
      o["fid"] = funcId(C, CO);
      o["generic"] = LE->isGenericLambda();
      json::Array caps;
      auto initIt = LE->capture_init_begin();
      for (auto& Cap : LE->captures()) {
        json::Object c;
        if (Cap.capturesThis()) {
          c["name"] = "this";
          c["byref"] = Cap.getCaptureKind() == LCK_This;
        } else if (Cap.capturesVariable()) {
          const VarDecl* VD = Cap.getCapturedVar();
          c["name"] = VD->getNameAsString();
          c["vid"] = varId(C, VD);
          c["byref"] = Cap.getCaptureKind() == LCK_ByRef;
          c["type"] = typeStr(C, VD->getType());
          if (VD->isInitCapture() && VD->getInit())
            c["init"] = ser(VD->getInit(), depth - 1);
        }
        if (Cap.isImplicit())
          c["implicit"] = true;
        caps.push_back(std::move(c));
        if (initIt != LE->capture_init_end())
          ++initIt;
      }
      o["captures"] = std::move(caps);
      return std::move(o);
    }
    if (auto* NE = dyn_cast<CXXNewExpr>(E)) {
      o["k"] = "new";
      o["type"] = typeStr(C, NE->getAllocatedType());
      o["ctype"] = typeStr(C, NE->getAllocatedType().getCanonicalType());
      json::Array pl;
      for (unsigned i = 0; i < NE->getNumPlacementArgs(); ++i)
        pl.push_back(kid(NE->getPlacementArg(i)));
      o["placement"] = std::move(pl);
      if (NE->isArray())
        o["array"] = true;
      if (const FunctionDecl* ON = NE->getOperatorNew()) {
        o["opnew"] = plainQName(ON);
        o["opnew_params"] = paramTypes(ON);
      }
      if (NE->getInitializer())
        o["init"] = kid(NE->getInitializer());
      if (!NE->getAllocatedType()->isDependentType() &&
          !NE->getAllocatedType()->isIncompleteType()) {
        o["talign"] = (int64_t)C.AC->getTypeAlignInChars(NE->getAllocatedType()).getQuantity();
        o["tsize"] = (int64_t)C.AC->getTypeSizeInChars(NE->getAllocatedType()).getQuantity();
      }
      return std::move(o);
    }
    if (auto* DE = dyn_cast<CXXDeleteExpr>(E)) {
      o["k"] = "delete";
      o["e"] = kid(DE->getArgument());
      if (DE->isArrayForm())
        o["array"] = true;
      if (const FunctionDecl* OD = DE->getOperatorDelete()) {
        o["opdelete"] = plainQName(OD);
        o["opdelete_params"] = paramTypes(OD);
      }
      return std::move(o);
    }
    if (auto* TE = dyn_cast<CXXThrowExpr>(E)) {
      o["k"] = "throw";
      if (TE->getSubExpr())
        o["e"] = kid(TE->getSubExpr());
      return std::move(o);
    }
    if (auto* PD = dyn_cast<CXXPseudoDestructorExpr>(E)) {
      o["k"] = "pseudodtor";
      o["base"] = kid(PD->getBase());
      o["type"] = typeStr(C, PD->getDestroyedType());
      return std::move(o);
    }
    if (auto* CE = dyn_cast<CXXConstructExpr>(E)) {
      const CXXConstructorDecl* CD = CE->getConstructor();
      // elide trivial copy/move wrappers of a single expression of same type
      if (CE->isElidable() && CE->getNumArgs() == 1)
        return ser(CE->getArg(0), depth);
      o["k"] = "construct";
      o["type"] = typeStr(C, CE->getType());
      o["cls"] = ctxName(CD->getParent());
      calleeInfo(o, CD);
      if (CD->isCopyConstructor())
        o["copy"] = true;
      if (CD->isMoveConstructor())
        o["move"] = true;
      if (CD->isTrivial())
        o["trivial"] = true;
      json::Array args;
      for (auto* A : CE->arguments())
        args.push_back(kid(A));
      o["args"] = std::move(args);
      return std::move(o);
    }
    if (auto* CE = dyn_cast<CallExpr>(E)) {
      o["k"] = "call";
      const FunctionDecl* FD = CE->getDirectCallee();
      std::vector<const Expr*> args;
      const Expr* obj = nullptr;
      if (auto* MC = dyn_cast<CXXMemberCallExpr>(CE)) {
        obj = MC->getImplicitObjectArgument();
        for (auto* A : MC->arguments())
          args.push_back(A);
        if (auto* CalleeME = dyn_cast<MemberExpr>(strip(MC->getCallee())))
          if (CalleeME->isArrow())
            o["arrow"] = true;
      } else if (auto* OC = dyn_cast<CXXOperatorCallExpr>(CE)) {
        o["opcall"] = std::string(getOperatorSpelling(OC->getOperator()));
        if (FD && isa<CXXMethodDecl>(FD) && !cast<CXXMethodDecl>(FD)->isStatic() &&
            OC->getNumArgs() >= 1) {
          obj = OC->getArg(0);
          for (unsigned i = 1; i < OC->getNumArgs(); ++i)
            args.push_back(OC->getArg(i));
        } else {
          for (auto* A : OC->arguments())
            args.push_back(A);
        }
      } else {
        for (auto* A : CE->arguments())
          args.push_back(A);
      }
      if (FD) {
        calleeInfo(o, FD);
        if (isa<CXXDestructorDecl>(FD))
          o["dtorcall"] = true;
        if (auto* MD = dyn_cast<CXXMethodDecl>(FD)) {
          if (isAtomicRecord(MD->getParent()))
            atomicInfo(o, FD, args);
        } else if (FD->getIdentifier()) {
          StringRef n = FD->getName();
          if ((n == "atomic_thread_fence" || n == "atomic_signal_fence") &&
              FD->isInStdNamespace()) {
            atomicInfo(o, FD, args);
            (*o.getObject("atomic"))["op"] = "fence";
          }
        }
      } else {
        // indirect call: function pointer / dependent
        o["callee"] = nullptr;
        o["fn"] = kid(CE->getCallee());
        // a call through a function pointer / function reference is an invocation of that object:
        // give it the shape of a functor invocation so that rules treat `stage_(x)` alike whether
        // stage_ is a lambda, a std::function or a plain `void (&)(T)`
        QualType CT = CE->getCallee()->IgnoreParenImpCasts()->getType();
        if (!CT.isNull() && !isa<CXXPseudoDestructorExpr>(CE->getCallee()->IgnoreParenImpCasts()) &&
            (CT->isFunctionPointerType() || CT->isFunctionType())) {
          o["opcall"] = "()";
          o["indirect"] = true;
          obj = CE->getCallee()->IgnoreParenImpCasts();
        }
      }
      if (obj)
        o["obj"] = kid(obj);
      json::Array ja;
      for (auto* A : args)
        ja.push_back(kid(A));
      o["args"] = std::move(ja);
      o["type"] = typeStr(C, CE->getType());
      addConst(o, E);
      return std::move(o);
    }
    if (auto* CE = dyn_cast<ExplicitCastExpr>(E)) {
      o["k"] = "cast";
      o["to"] = typeStr(C, CE->getTypeAsWritten());
      o["ck"] = CE->getCastKindName();
      o["e"] = kid(CE->getSubExpr());
      addConst(o, E);
      return std::move(o);
    }
    if (auto* IC = dyn_cast<ImplicitCastExpr>(E)) { // user-defined conversion
      return ser(IC->getSubExpr(), depth);
    }
    if (auto* UE = dyn_cast<UnaryExprOrTypeTraitExpr>(E)) {
      o["k"] = "sizeof";
      o["trait"] = (int)UE->getKind();
      if (UE->isArgumentType())
        o["of_type"] = typeStr(C, UE->getArgumentType());
      else
        o["of_expr"] = kid(UE->getArgumentExpr());
      addConst(o, E);
      return std::move(o);
    }
    if (auto* IL = dyn_cast<InitListExpr>(E)) {
      o["k"] = "initlist";
      json::Array a;
      for (auto* I : IL->inits())
        a.push_back(kid(I));
      o["args"] = std::move(a);
      o["type"] = typeStr(C, IL->getType());
      return std::move(o);
    }
    if (auto* SL = dyn_cast<StringLiteral>(E)) {
      o["k"] = "str";
      return std::move(o);
    }
    if (auto* FL = dyn_cast<FloatingLiteral>(E)) {
      o["k"] = "float";
      o["v"] = FL->getValueAsApproximateDouble();
      return std::move(o);
    }
    if (auto* CL = dyn_cast<CharacterLiteral>(E)) {
      o["k"] = "int";
      o["cv"] = (int64_t)CL->getValue();
      return std::move(o);
    }
    if (auto* SV = dyn_cast<CXXScalarValueInitExpr>(E)) {
      o["k"] = "int";
      o["cv"] = 0;
      o["valueinit"] = true;
      return std::move(o);
    }
    if (auto* TO = dyn_cast<CXXTemporaryObjectExpr>(E)) {
      // (subclass of CXXConstructExpr, handled above) — unreachable
    }
    o["k"] = "other";
    o["cls"] = E->getStmtClassName();
    json::Array kids;
    for (const Stmt* K : E->children())
      if (auto* KE = dyn_cast_or_null<Expr>(K))
        kids.push_back(kid(KE));
    o["kids"] = std::move(kids);
    addConst(o, E);
    return std::move(o);
  }
};

bool interestingStmt(const Stmt* S) {
  if (isa<CallExpr>(S) || isa<CXXConstructExpr>(S) || isa<CXXNewExpr>(S) ||
      isa<CXXDeleteExpr>(S) || isa<CXXThrowExpr>(S) || isa<ReturnStmt>(S) || isa<DeclStmt>(S) ||
      isa<LambdaExpr>(S) || isa<CXXPseudoDestructorExpr>(S))
    return true;
  if (auto* BO = dyn_cast<BinaryOperator>(S))
    return BO->isAssignmentOp();
  if (auto* UO = dyn_cast<UnaryOperator>(S))
    return UO->isIncrementDecrementOp();
  return false;
}

void processFunction(Ctx& C, const FunctionDecl* FD, int parentId);

void emitRecord(Ctx& C, const CXXRecordDecl* RD) {
  if (!RD || !RD->isCompleteDefinition() || RD->isDependentType() || RD->isLambda())
    return;
  if (!C.recordsDone.insert(RD->getCanonicalDecl()).second)
    return;
  if (RD->isInvalidDecl())
    return;
  json::Object r;
  r["qname"] = ctxName(RD);
  r["inst"] = typeStr(C, C.AC->getRecordType(RD));
  r["loc"] = locStr(C, RD->getLocation());
  r["size"] = (int64_t)C.AC->getTypeSizeInChars(C.AC->getRecordType(RD)).getQuantity();
  r["align"] = (int64_t)C.AC->getTypeAlignInChars(C.AC->getRecordType(RD)).getQuantity();
  json::Array fs;
  const ASTRecordLayout& L = C.AC->getASTRecordLayout(RD);
  unsigned i = 0;
  for (auto* F : RD->fields()) {
    json::Object f;
    f["name"] = F->getNameAsString();
    f["type"] = typeStr(C, F->getType());
    f["offset"] = (int64_t)(L.getFieldOffset(i) / 8);
    if (!F->getType()->isDependentType() && !F->getType()->isIncompleteType()) {
      f["size"] = (int64_t)C.AC->getTypeSizeInChars(F->getType()).getQuantity();
      f["align"] = (int64_t)C.AC->getDeclAlign(F).getQuantity();
    }
    fs.push_back(std::move(f));
    ++i;
  }
  r["fields"] = std::move(fs);
  C.records.push_back(std::move(r));
}

void processFunction(Ctx& C, const FunctionDecl* FD, int parentId) {
  if (!FD || !FD->doesThisDeclarationHaveABody())
    return;
  if (FD->isDependentContext() || FD->isInvalidDecl())
    return;
  // implicitly declared special members are skipped; `= default`ed ones are part of the source
  // (their synthesised member-wise body is what the class does on copy/move) and are analysed
  if (FD->isDefaulted() && !FD->isUserProvided() && !FD->isExplicitlyDefaulted())
    return;
  const FunctionDecl* Pat = patternOf(FD);
  std::string file = fileOf(C, Pat->getLocation());
  if (!inScopeFile(file))
    return;
  if (!C.done.insert(FD->getCanonicalDecl()).second)
    return;
  const Stmt* Body = FD->getBody();
  if (!Body)
    return;

  CFG::BuildOptions BO;
  BO.setAllAlwaysAdd();
  BO.AddImplicitDtors = true;
  BO.AddTemporaryDtors = true;
  BO.AddInitializers = true;
  BO.AddEHEdges = false;
  BO.PruneTriviallyFalseEdges = true;
  std::unique_ptr<CFG> G = CFG::buildCFG(FD, const_cast<Stmt*>(Body), C.AC, BO);
  if (!G)
    return;

  FnWalk W;
  lexWalk(C, W, Body, 0, 0, 0);
  if (auto* CD = dyn_cast<CXXConstructorDecl>(FD))
    for (auto* I : CD->inits())
      if (I->getInit())
        lexWalk(C, W, I->getInit(), 0, 0, 0);
  // default arguments containing lambdas are rare; ignore

  ExprSer S{C, &W, FD, {}};
  json::Object F;
  int myId = funcId(C, FD);
  F["id"] = myId;
  F["qname"] = plainQName(FD);
  F["loc"] = locStr(C, FD->getLocation());
  F["ploc"] = locStr(C, Pat->getLocation());
  F["end"] = locStr(C, Body->getEndLoc());
  F["inst"] = FD->isTemplateInstantiation() ||
      (isa<CXXMethodDecl>(FD) &&
       isa<ClassTemplateSpecializationDecl>(cast<CXXMethodDecl>(FD)->getParent()));
  F["parent"] = parentId;
  {
    std::string s;
    llvm::raw_string_ostream os(s);
    FD->getNameForDiagnostic(os, C.PP, true);
    os.flush();
    if (s.size() > 400)
      s = s.substr(0, 400) + "...";
    F["display"] = s;
  }
  if (auto* MD = dyn_cast<CXXMethodDecl>(FD)) {
    F["cls"] = ctxName(MD->getParent());
    if (MD->getParent()->isLambda())
      F["lambda"] = true;
    if (!MD->getParent()->isLambda())
      F["clsinst"] = typeStr(C, C.AC->getRecordType(MD->getParent()));
    if (isa<CXXConstructorDecl>(MD))
      F["ctor"] = true;
    if (isa<CXXDestructorDecl>(MD))
      F["dtor"] = true;
    if (MD->isConst())
      F["const"] = true;
    if (!MD->getParent()->isLambda())
      emitRecord(C, MD->getParent());
  }
  if (auto* Args = FD->getTemplateSpecializationArgs()) {
    std::string s;
    llvm::raw_string_ostream os(s);
    printTemplateArgumentList(os, Args->asArray(), C.PP);
    os.flush();
    if (s.size() > 400)
      s = s.substr(0, 400) + "...";
    F["targs"] = s;
    json::Array ia;
    for (auto& A : Args->asArray()) {
      if (A.getKind() == TemplateArgument::Integral)
        ia.push_back((int64_t)A.getAsIntegral().getExtValue());
      else if (A.getKind() == TemplateArgument::Type)
        ia.push_back(typeStr(C, A.getAsType()));
      else
        ia.push_back(nullptr);
    }
    F["targv"] = std::move(ia);
  }
  F["ret"] = typeStr(C, FD->getReturnType());
  json::Array params;
  for (auto* P : FD->parameters()) {
    json::Object p;
    p["name"] = P->getNameAsString();
    p["vid"] = varId(C, P);
    p["type"] = typeStr(C, P->getType());
    p["ctype"] = typeStr(C, P->getType().getCanonicalType());
    params.push_back(std::move(p));
  }
  F["params"] = std::move(params);

  json::Array blocks;
  for (const CFGBlock* B : *G) {
    json::Object b;
    b["id"] = (int64_t)B->getBlockID();
    json::Array succs;
    json::Array succsAll;
    for (auto SI = B->succ_begin(); SI != B->succ_end(); ++SI) {
      const CFGBlock* R = SI->getReachableBlock();
      if (R)
        succs.push_back((int64_t)R->getBlockID());
      else
        succs.push_back(nullptr);
      const CFGBlock* PU = SI->getPossiblyUnreachableBlock();
      if (PU)
        succsAll.push_back((int64_t)PU->getBlockID());
      else if (R)
        succsAll.push_back((int64_t)R->getBlockID());
      else
        succsAll.push_back(nullptr);
    }
    b["succs"] = std::move(succs);
    b["succs_all"] = std::move(succsAll);
    if (B->hasNoReturnElement())
      b["noreturn"] = true;
    if (const Stmt* L = B->getLabel()) {
      json::Object l;
      l["kind"] = L->getStmtClassName();
      if (auto* CS = dyn_cast<CaseStmt>(L)) {
        if (CS->getLHS())
          l["value"] = S.ser(CS->getLHS(), 3);
      } else if (auto* CS2 = dyn_cast<CXXCatchStmt>(L)) {
        l["catch_all"] = CS2->getExceptionDecl() == nullptr;
        auto it = W.catchOf.find(CS2->getHandlerBlock());
        if (it != W.catchOf.end())
          l["catch_of_try"] = it->second;
      }
      b["label"] = std::move(l);
    }
    if (const Stmt* T = B->getTerminatorStmt()) {
      json::Object t;
      t["kind"] = T->getStmtClassName();
      t["loc"] = locStr(C, T->getBeginLoc());
      if (auto* BOp = dyn_cast<BinaryOperator>(T))
        t["op"] = BOp->getOpcodeStr().str();
      if (const Stmt* Cond = B->getTerminatorCondition(true)) {
        if (auto* CE = dyn_cast<Expr>(Cond))
          t["cond"] = S.ser(CE, MaxDepth);
      }
      auto itl = W.loopOf.find(T);
      if (isa<WhileStmt>(T) || isa<ForStmt>(T) || isa<DoStmt>(T) || isa<CXXForRangeStmt>(T)) {
        // the loop statement's own id: children carry it; find via first child
        for (const Stmt* K : T->children())
          if (K) {
            auto kk = W.loopOf.find(K);
            if (kk != W.loopOf.end()) {
              t["loop"] = kk->second;
              break;
            }
          }
      } else if (itl != W.loopOf.end()) {
        t["inloop"] = itl->second;
      }
      b["term"] = std::move(t);
    }
    json::Array elems;
    for (const CFGElement& El : *B) {
      json::Object e;
      bool emit = false;
      if (auto CS = El.getAs<CFGStmt>()) {
        const Stmt* St = CS->getStmt();
        if (!interestingStmt(St))
          continue;
        // an elidable copy/move construction is serialised as its operand, which already is an
        // event of its own: do not emit it twice
        if (auto* ECE = dyn_cast<CXXConstructExpr>(St))
          if (ECE->isElidable() && ECE->getNumArgs() == 1)
            continue;
        if (auto* RS = dyn_cast<ReturnStmt>(St)) {
          e["k"] = "return";
          e["sid"] = S.sidOf(RS);
          if (RS->getRetValue())
            e["e"] = S.ser(RS->getRetValue(), MaxDepth);
          emit = true;
        } else if (auto* DS = dyn_cast<DeclStmt>(St)) {
          for (auto* D : DS->decls()) {
            if (auto* VD = dyn_cast<VarDecl>(D)) {
              json::Object d;
              d["k"] = "decl";
              d["sid"] = S.sidOf(DS);
              d["name"] = VD->getNameAsString();
              d["vid"] = varId(C, VD);
              d["type"] = typeStr(C, VD->getType());
              d["ctype"] = typeStr(C, VD->getType().getCanonicalType());
              if (VD->isStaticLocal())
                d["static"] = true;
              if (VD->getTLSKind() != VarDecl::TLS_None)
                d["tls"] = true;
              if (VD->getInit())
                d["init"] = S.ser(VD->getInit(), MaxDepth);
              d["loc"] = locStr(C, VD->getLocation());
              auto a = W.tryOf.find(St);
              if (a != W.tryOf.end())
                d["try"] = a->second;
              auto c = W.catchOf.find(St);
              if (c != W.catchOf.end())
                d["catch"] = c->second;
              auto l = W.loopOf.find(St);
              if (l != W.loopOf.end())
                d["loop"] = l->second;
              elems.push_back(std::move(d));
            }
          }
          continue;
        } else if (auto* Ex = dyn_cast<Expr>(St)) {
          json::Value v = S.ser(Ex, MaxDepth);
          if (auto* vo = v.getAsObject()) {
            e = std::move(*vo);
            emit = true;
          }
        }
        if (emit) {
          e["loc"] = locStr(C, St->getBeginLoc());
          auto a = W.tryOf.find(St);
          if (a != W.tryOf.end())
            e["try"] = a->second;
          auto c = W.catchOf.find(St);
          if (c != W.catchOf.end())
            e["catch"] = c->second;
          auto l = W.loopOf.find(St);
          if (l != W.loopOf.end())
            e["loop"] = l->second;
        }
      } else if (auto CI = El.getAs<CFGInitializer>()) {
        const CXXCtorInitializer* I = CI->getInitializer();
        e["k"] = "init";
        if (I->isAnyMemberInitializer()) {
          const FieldDecl* FDm = I->getAnyMember();
          e["field"] = ctxName(FDm->getParent()) + "::" + FDm->getNameAsString();
          e["fname"] = FDm->getNameAsString();
        } else if (I->isBaseInitializer()) {
          e["base"] = typeStr(C, QualType(I->getBaseClass(), 0));
        } else if (I->isDelegatingInitializer()) {
          e["delegating"] = true;
        }
        if (I->getInit())
          e["init"] = S.ser(I->getInit(), MaxDepth);
        e["loc"] = locStr(C, I->getSourceLocation());
        if (!I->isWritten())
          e["implicit"] = true;
        emit = true;
      } else if (auto AD = El.getAs<CFGAutomaticObjDtor>()) {
        const VarDecl* VD = AD->getVarDecl();
        e["k"] = "autodtor";
        e["name"] = VD->getNameAsString();
        e["vid"] = varId(C, VD);
        e["type"] = typeStr(C, VD->getType());
        if (const CXXDestructorDecl* DD = AD->getDestructorDecl(*C.AC)) {
          e["callee"] = plainQName(DD);
          e["cls"] = ctxName(DD->getParent());
          if (DD->hasBody() || patternOf(DD)->hasBody())
            e["fid"] = funcId(C, DD);
        }
        if (AD->getTriggerStmt())
          e["loc"] = locStr(C, AD->getTriggerStmt()->getEndLoc());
        emit = true;
      } else if (auto TD = El.getAs<CFGTemporaryDtor>()) {
        const CXXBindTemporaryExpr* BT = TD->getBindTemporaryExpr();
        e["k"] = "tempdtor";
        e["type"] = typeStr(C, BT->getType());
        e["of_sid"] = S.sidOf(ExprSer::strip(BT->getSubExpr()));
        if (const CXXDestructorDecl* DD = TD->getDestructorDecl(*C.AC)) {
          e["callee"] = plainQName(DD);
          e["cls"] = ctxName(DD->getParent());
          if (DD->hasBody() || patternOf(DD)->hasBody())
            e["fid"] = funcId(C, DD);
        }
        e["loc"] = locStr(C, BT->getEndLoc());
        emit = true;
      } else if (auto MD = El.getAs<CFGMemberDtor>()) {
        const FieldDecl* FDm = MD->getFieldDecl();
        e["k"] = "memberdtor";
        e["field"] = ctxName(FDm->getParent()) + "::" + FDm->getNameAsString();
        e["type"] = typeStr(C, FDm->getType());
        emit = true;
      } else if (auto BD = El.getAs<CFGBaseDtor>()) {
        e["k"] = "basedtor";
        e["type"] = typeStr(C, BD->getBaseSpecifier()->getType());
        emit = true;
      } else if (auto DD = El.getAs<CFGDeleteDtor>()) {
        continue; // the delete expr itself is an event
      }
      if (emit)
        elems.push_back(std::move(e));
    }
    b["elems"] = std::move(elems);
    blocks.push_back(std::move(b));
  }
  F["blocks"] = std::move(blocks);
  F["entry"] = (int64_t)G->getEntry().getBlockID();
  F["exit"] = (int64_t)G->getExit().getBlockID();
  F["tries"] = std::move(W.tries);
  F["loops"] = std::move(W.loops);
  C.functions.push_back(std::move(F));

  // lambdas lexically inside: call operators (and instantiations of generic ones)
  for (const LambdaExpr* LE : W.lambdas) {
    const CXXMethodDecl* CO = LE->getCallOperator();
    if (!CO)
      continue;
    if (LE->isGenericLambda()) {
      if (FunctionTemplateDecl* FT = CO->getDescribedFunctionTemplate())
        for (FunctionDecl* Sp : FT->specializations())
          processFunction(C, Sp, myId);
    } else {
      processFunction(C, CO, myId);
    }
  }
}

class Visitor : public RecursiveASTVisitor<Visitor> {
 public:
  explicit Visitor(Ctx& C) : C(C) {}
  bool shouldVisitTemplateInstantiations() const {
    return true;
  }
  bool shouldVisitImplicitCode() const {
    return false;
  }
  bool VisitFunctionDecl(FunctionDecl* FD) {
    if (auto* MD = dyn_cast<CXXMethodDecl>(FD))
      if (MD->getParent()->isLambda())
        return true; // handled from the enclosing function
    // a function nested in a local class etc. is treated as top level
    processFunction(C, FD, 0);
    return true;
  }
  bool VisitVarDecl(VarDecl* VD) {
    // compile-time witnesses: namespace-scope / static-member variables named dsa_w_*
    if (!VD->getIdentifier() || !VD->getName().startswith("dsa_w_"))
      return true;
    if (VD->isInvalidDecl() || VD->getType()->isDependentType())
      return true;
    if (auto* DC = VD->getDeclContext())
      if (DC->isDependentContext())
        return true;
    const Expr* I = VD->getAnyInitializer();
    if (!I || I->isValueDependent())
      return true;
    json::Object w;
    w["name"] = VD->getNameAsString();
    w["qname"] = plainQName(VD);
    w["loc"] = locStr(C, VD->getLocation());
    w["type"] = typeStr(C, VD->getType());
    Expr::EvalResult R;
    if (I->getType()->isIntegralOrEnumerationType() && I->EvaluateAsInt(R, *C.AC)) {
      w["value"] = (int64_t)R.Val.getInt().getExtValue();
    } else if (APValue* V = VD->evaluateValue()) {
      if (V->isInt())
        w["value"] = (int64_t)V->getInt().getExtValue();
      else
        w["value"] = nullptr;
    } else {
      w["value"] = nullptr;
    }
    C.witnesses.push_back(std::move(w));
    return true;
  }

 private:
  Ctx& C;
};

class Consumer : public ASTConsumer {
 public:
  void HandleTranslationUnit(ASTContext& AC) override {
    Ctx C;
    C.AC = &AC;
    C.SM = &AC.getSourceManager();
    C.PP = PrintingPolicy(AC.getLangOpts());
    C.PP.SuppressTagKeyword = true;
    C.PP.Bool = true;
    C.PP.SuppressUnwrittenScope = true;
    Visitor V(C);
    V.TraverseDecl(AC.getTranslationUnitDecl());
    json::Object root;
    root["tu"] = C.SM->getFileEntryForID(C.SM->getMainFileID())
        ? C.SM->getFileEntryForID(C.SM->getMainFileID())->getName().str()
        : "";
    root["errors"] = (int64_t)AC.getDiagnostics().getNumErrors();
    root["functions"] = std::move(C.functions);
    root["witnesses"] = std::move(C.witnesses);
    root["records"] = std::move(C.records);
    std::error_code EC;
    if (OutFile == "-") {
      llvm::outs() << json::Value(std::move(root)) << "\n";
    } else {
      llvm::raw_fd_ostream os(OutFile, EC);
      if (EC) {
        llvm::errs() << "dsa: cannot write " << OutFile << ": " << EC.message() << "\n";
        return;
      }
      os << json::Value(std::move(root)) << "\n";
    }
  }
};

class Action : public ASTFrontendAction {
 public:
  std::unique_ptr<ASTConsumer> CreateASTConsumer(CompilerInstance&, StringRef) override {
    return std::make_unique<Consumer>();
  }
};

} // namespace

int main(int argc, const char** argv) {
  auto Expected = tooling::CommonOptionsParser::create(argc, argv, DsaCat);
  if (!Expected) {
    llvm::errs() << Expected.takeError();
    return 2;
  }
  tooling::CommonOptionsParser& OP = Expected.get();
  tooling::ClangTool Tool(OP.getCompilations(), OP.getSourcePathList());
  int rc = Tool.run(tooling::newFrontendActionFactory<Action>().get());
  return rc == 0 ? 0 : 2;
}
