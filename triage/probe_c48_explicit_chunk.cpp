#include <dispenso/parallel_for.h>
#include <cstdio>
#include <thread>
#include <atomic>
int main() {
  dispenso::ThreadPool pool(8); 
  for (int wait = 0; wait < 2; ++wait) {
    dispenso::TaskSet ts(pool);
    std::atomic<int> conc{0}, maxConc{0};
    dispenso::ParForOptions o; o.maxThreads = 2; o.wait = wait;
    dispenso::parallel_for(ts, dispenso::makeChunkedRange(0, 6, 1), [&](int, int){ int c = ++conc; int m = maxConc.load(); while (c > m && !maxConc.compare_exchange_weak(m, c)) {} std::this_thread::sleep_for(std::chrono::milliseconds(20)); --conc; }, o);
    ts.wait();
    printf("explicit chunk=1, size 6, maxThreads=2, wait=%d: peak concurrency %d\n", wait, maxConc.load());
  }
}
