#include <dispenso/task_set.h>
#include <cstdio>
#include <thread>
#include <atomic>
std::atomic<bool> g_c03_delay{false}; std::atomic<bool> g_c03_in_window{false};
int main() {
  dispenso::ThreadPool pool(8);
  std::atomic<int> ran{0};
  std::atomic<bool> waitReturned{false};
  std::thread producer([&]{
    dispenso::TaskSet ts(pool);
    g_c03_delay = true;
    ts.scheduleBulk(8, [&](size_t){ return [&]{ ran++; }; });   // ring fast path: count == numThreads
    g_c03_delay = false;
    ts.wait();
    waitReturned = true;
  });
  while (!g_c03_in_window) std::this_thread::yield();
  g_c03_delay = false;
  pool.resize(4);          // completes while the producer sits between the ring-count load and the pushes
  for (int i = 0; i < 50 && !waitReturned; ++i) std::this_thread::sleep_for(std::chrono::milliseconds(100));
  printf("C03: after resize(8->4) racing a bulk submission: %d/8 tasks ran, wait() returned=%d (5 s)\n", ran.load(), (int)waitReturned.load());
  if (!waitReturned) { pool.resize(8); std::this_thread::sleep_for(std::chrono::milliseconds(300)); printf("after a later resize: ran=%d wait returned=%d\n", ran.load(), (int)waitReturned.load()); }
  if (!waitReturned) _exit(1);
  producer.join();
}
