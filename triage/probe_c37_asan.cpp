// ASan/LSan triage: C37 arena copy w/ 3 buffers; C29 pipeline leak on exception; C11 ThenChain pool migration
#include <dispenso/concurrent_object_arena.h>
#include <dispenso/pipeline.h>
#include <dispenso/future.h>
#include <dispenso/small_buffer_allocator.h>
#include <cstdio>
#include <memory>
#include <stdexcept>
int main(int argc, char** argv) {
  int which = atoi(argv[1]);
  if (which == 37) {
    dispenso::ConcurrentObjectArena<int> a(4);
    a.grow_by(4*3 - 1);  // 3 buffers
    printf("buffers=%zu\n", (size_t)a.numBuffers());
    dispenso::ConcurrentObjectArena<int> b(a);
    printf("copied size=%zu\n", (size_t)b.size());
  }
  if (which == 29) {
    dispenso::ThreadPool pool(4);
    int produced = 0;
    try {
      dispenso::pipeline(pool,
        [&]() -> dispenso::OpResult<std::unique_ptr<int>> { if (produced++ < 2000) return std::make_unique<int>(produced); return {}; },
        dispenso::stage([&](std::unique_ptr<int> p) -> std::unique_ptr<int> { if (*p == 500) throw std::runtime_error("boom"); return p; }, 2),
        [&](std::unique_ptr<int> p) { (void)p; });
    } catch (const std::exception& e) { printf("caught %s after %d produced\n", e.what(), produced); }
  }
  if (which == 11) {
    dispenso::ThreadPool pool(2);
    size_t before32 = dispenso::approxBytesAllocatedSmallBuffer<32>(), before8 = dispenso::approxBytesAllocatedSmallBuffer<8>();
    for (int rep = 0; rep < 200000; ++rep) {
      dispenso::CompletionEvent ev;
      dispenso::Future<int> f([&]{ ev.wait(); return 1; }, dispenso::kNewThreadInvoker);
      (void)f;
      break;
    }
    // then() on a not-yet-ready future goes through the ThenChain alloc/dealloc
    for (int rep = 0; rep < 300000; ++rep) {
      dispenso::CompletionEvent ev;
      dispenso::Future<int> f([&]{ ev.wait(); return 1; }, pool, std::launch::async);
      auto g = f.then([](dispenso::Future<int>&& x){ return x.get() + 1; }, pool);
      ev.notify();
      g.get();
    }
    printf("32-byte pool grew %zu bytes, 8-byte pool grew %zu bytes\n", dispenso::approxBytesAllocatedSmallBuffer<32>()-before32, dispenso::approxBytesAllocatedSmallBuffer<8>()-before8);
  }
  return 0;
}
