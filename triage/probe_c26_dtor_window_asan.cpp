// C26 triage: ~TimedTask clears func while the scheduler thread is inside it (window between the
// cancelled check and inProgress++ widened by the scratch patch probe_c26_window.patch). Run under ASan.
#include <dispenso/timed_task.h>
#include <cstdio>
#include <memory>
std::atomic<bool> g_c26_delay{false}; std::atomic<bool> g_c26_delay2{false}; std::atomic<bool> g_c26_in_window{false};
int main() {
  dispenso::ThreadPool pool(2);
  dispenso::TimedTaskScheduler sched;
  std::atomic<int> calls{0};
  {
    auto big = std::make_shared<std::vector<int>>(1000, 7);
    g_c26_delay = true;
    dispenso::TimedTask t = sched.schedule(pool, [big, &calls]() { calls += (*big)[10]; return true; }, dispenso::getTime() + 0.01);
    while (!g_c26_in_window) std::this_thread::yield();
    g_c26_delay = false;
    // destructor runs here: cancel(); inProgress == 0 -> func = {} while the scheduler thread is still in func
  }
  std::this_thread::sleep_for(std::chrono::milliseconds(800));
  printf("C26: body calls after the TimedTask destructor returned: %d (expect 0)\n", calls.load());
}
