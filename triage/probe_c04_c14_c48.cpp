#include <dispenso/parallel_for.h>
#include <dispenso/task_set.h>
#include <dispenso/pipeline.h>
#include <thread>
#include <chrono>
#include <cstdio>
#include <atomic>
int main(int argc, char** argv) {
  int which = atoi(argv[1]);
  if (which == 4) {
    // C04: cancelled CTS runs body inline when pool is overloaded
    dispenso::ThreadPool pool(1, 1);  // load multiplier 1 => poolLoadFactor 1
    std::atomic<bool> release{false};
    dispenso::ConcurrentTaskSet blocker(pool);
    for (int i = 0; i < 8; ++i) blocker.schedule([&]{ while(!release) std::this_thread::yield(); }, dispenso::ForceQueuingTag());
    dispenso::ConcurrentTaskSet cts(pool, dispenso::TaskCost::kLightweight);
    cts.cancel();
    int ranAfterCancel = 0;
    for (int i = 0; i < 4; ++i) cts.schedule([&]{ ++ranAfterCancel; });
    dispenso::ConcurrentTaskSet cts2(pool); // kHeavy
    cts2.cancel();
    int ran2 = 0;
    for (int i = 0; i < 4; ++i) cts2.schedule([&]{ ++ran2; });
    release = true; blocker.wait(); cts.wait(); cts2.wait();
    printf("C04 bodies run after cancel: lightweight=%d heavy=%d (expect 0)\n", ranAfterCancel, ran2);
  }
  if (which == 14) {
    // C14/C48: static no-wait: tail runs on caller with first state while worker uses first state
    dispenso::ThreadPool pool(4); dispenso::TaskSet ts(pool);
    std::vector<std::atomic<int>*> dummy;
    struct S { std::atomic<int> inUse{0}; S()=default; S(const S&){} };
    std::deque<S> states;
    std::atomic<int> overlap{0}; std::atomic<int> maxConc{0}; std::atomic<int> conc{0};
    dispenso::ParForOptions o; o.granularity = 8; o.wait = false; o.maxThreads = 2;
    for (int rep = 0; rep < 50; ++rep) {
      dispenso::parallel_for(ts, states, []{ return S(); }, dispenso::makeChunkedRange(0, 8*4+3, dispenso::ParForChunking::kStatic),
        [&](S& s, int b, int e){ int c = ++conc; int m = maxConc.load(); while (c>m && !maxConc.compare_exchange_weak(m,c)){} if (s.inUse.fetch_add(1)) overlap++; std::this_thread::sleep_for(std::chrono::milliseconds(2)); s.inUse.fetch_sub(1); --conc; }, o);
      ts.wait();
    }
    printf("C14 state overlaps=%d ; C48 max concurrency=%d with maxThreads=2\n", overlap.load(), maxConc.load());
  }
  return 0;
}
