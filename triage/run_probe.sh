#!/bin/bash
# usage: triage/run_probe.sh probe.cpp [address|thread|none] [extra flags...]
# Builds the probe against /repo sources (all library units compiled in) and runs it. Triage only.
set -e
P=$1; SAN=${2:-none}; shift; shift || true
D=$(mktemp -d /tmp/probe.XXXXXX)
FL="-std=c++14 -O1 -g -DNDEBUG -I/repo -isystem /repo/dispenso/third-party"
if [ "$SAN" != "none" ]; then FL="$FL -fsanitize=$SAN"; CXX=clang++; else CXX=g++; fi
ls /repo/dispenso/*.cpp /repo/dispenso/detail/*.cpp | xargs -P16 -I{} sh -c "$CXX $FL $* -c {} -o $D/\$(basename {}).o"
$CXX $FL "$@" $P $D/*.o -o $D/probe -lpthread
set +e
(cd $D && timeout 300 ./probe $PROBE_ARGS); RC=$?
rm -rf $D
echo "probe exit: $RC"
