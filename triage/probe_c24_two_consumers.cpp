#include <dispenso/async_request.h>
#include <thread>
#include <vector>
#include <atomic>
#include <cstdio>
#include <memory>
int main() {
  dispenso::AsyncRequest<std::unique_ptr<int>> req;
  std::atomic<bool> stop{false};
  const int N = 300000;
  std::vector<std::atomic<int>> delivered(N);
  for (auto& d : delivered) d = 0;
  std::atomic<int> nulls{0};
  std::thread prod([&]{ for (int i = 0; i < N; ) { if (req.tryEmplaceUpdate(std::make_unique<int>(i))) ++i; } stop = true; });
  auto consumer = [&]{ while (!stop) { req.requestUpdate(); auto r = req.getUpdate(); if (r) { if (r.value()) delivered[*r.value()]++; else nulls++; } } };
  std::thread c1(consumer), c2(consumer);
  prod.join(); c1.join(); c2.join();
  int dup = 0; for (auto& d : delivered) if (d > 1) ++dup;
  printf("C24: %d values delivered more than once, %d deliveries of a moved-from (null) value\n", dup, nulls.load());
}
