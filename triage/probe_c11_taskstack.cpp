#include <dispenso/task_set.h>
#include <cstdio>
#include <atomic>
std::atomic<int> maxDepth{0};
void rec(dispenso::ThreadPool& pool, int depth, int limit) {
  if (depth > maxDepth) maxDepth = depth;
  if (depth == limit) return;
  dispenso::TaskSet ts(pool);
  ts.schedule([&pool, depth, limit]{ rec(pool, depth+1, limit); }, dispenso::ForceQueuingTag());
  ts.wait();
}
int main(int argc, char** argv) {
  int limit = atoi(argv[1]);
  dispenso::ThreadPool pool(1);
  rec(pool, 0, limit);
  printf("done depth=%d parent=%p\n", maxDepth.load(), (void*)dispenso::parentTaskSet());
}
