// C46 triage: long then() chain completing on an overloaded pool -> inline nesting depth of ThreadPool::schedule?
#include <dispenso/future.h>
#include <dispenso/completion_event.h>
#include <cstdio>
#include <vector>
#include <atomic>
#include <thread>
static std::atomic<size_t> maxDepthBytes{0};
static thread_local char* base = nullptr;
static thread_local int nest = 0;
static std::atomic<int> maxNest{0};
int main(int argc, char** argv) {
  int N = atoi(argv[1]);
  dispenso::ThreadPool pool(1, 1);   // poolLoadFactor_ = 1
  std::atomic<bool> done{false};
  std::atomic<int> outstanding{0};
  dispenso::CompletionEvent go;
  // keep workRemaining_ above the load factor with a stream of short force-queued tasks
  std::thread feeder([&]{ while (!done) { if (outstanding.load() < 8) { outstanding++; pool.schedule([&]{ outstanding--; }, dispenso::ForceQueuingTag()); } else std::this_thread::yield(); } });
  std::vector<dispenso::Future<int>> chain;
  chain.emplace_back([&]{ go.wait(); return 0; }, dispenso::kNewThreadInvoker);
  for (int i = 0; i < N; ++i) {
    chain.push_back(chain.back().then([](dispenso::Future<int>&& f){ int v = f.get() + 1; return v; }, pool));
  }
  go.notify();
  // poll instead of get(): get() on the tail would run the continuations inline *backwards* through
  // waitCommon -> run (a different, known, unbounded nesting: see probe_c46_wait_chain.cpp)
  while (!chain.back().is_ready()) std::this_thread::yield();
  int v = chain.back().get();
  done = true; feeder.join();
  printf("chain %d -> value %d completed\n", N, v);
}
