// C46 triage: long then() chain completing on an overloaded pool -> inline nesting depth?
#include <dispenso/future.h>
#include <dispenso/completion_event.h>
#include <cstdio>
#include <vector>
#include <atomic>
#include <thread>
static std::atomic<size_t> maxDepthBytes{0};
static thread_local char* base = nullptr;
int main(int argc, char** argv) {
  int N = atoi(argv[1]);
  dispenso::ThreadPool pool(1, 1);   // poolLoadFactor_ = 1
  std::atomic<bool> release{false};
  dispenso::CompletionEvent go;
  // occupy the single worker and keep workRemaining_ > load factor
  for (int i = 0; i < 4; ++i) pool.schedule([&]{ while(!release) std::this_thread::yield(); }, dispenso::ForceQueuingTag());
  std::vector<dispenso::Future<int>> chain;
  chain.emplace_back([&]{ go.wait(); char c; base = &c; return 0; }, dispenso::kNewThreadInvoker);
  for (int i = 0; i < N; ++i) {
    chain.push_back(chain.back().then([](dispenso::Future<int>&& f){ char c; size_t d = base ? (size_t)(base - &c) : 0; size_t m = maxDepthBytes.load(); while (d > m && !maxDepthBytes.compare_exchange_weak(m, d)) {} return f.get() + 1; }, pool));
  }
  go.notify();
  int v = chain.back().get();
  printf("chain %d -> value %d, max stack depth below first frame: %zu bytes\n", N, v, maxDepthBytes.load());
  release = true;
}
