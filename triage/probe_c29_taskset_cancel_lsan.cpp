// C29/C11 triage: TaskSet::schedule(OnceFunction&&) on a cancelled set returns early without releasing the payload.
#include <dispenso/task_set.h>
#include <cstdio>
static int live = 0;
struct Tracked { Tracked() { ++live; } Tracked(const Tracked&) { ++live; } Tracked(Tracked&&) noexcept { ++live; } ~Tracked() { --live; } };
int main() {
  dispenso::ThreadPool pool(2);
  {
    dispenso::TaskSet ts(pool);
    ts.cancel();
    for (int i = 0; i < 100; ++i) {
      Tracked t;
      dispenso::OnceFunction fn([t]() {});
      ts.schedule(std::move(fn));
    }
    ts.wait();
  }
  printf("TaskSet: callables still alive after the cancelled set is gone: %d (expect 0)\n", live);
  int l0 = live;
  {
    dispenso::ConcurrentTaskSet ts(pool);
    ts.cancel();
    for (int i = 0; i < 100; ++i) {
      Tracked t;
      dispenso::OnceFunction fn([t]() {});
      ts.schedule(std::move(fn));
    }
    ts.wait();
  }
  printf("ConcurrentTaskSet: %d (expect 0)\n", live - l0);
  return live != 0;
}
