// C46 known finding: Future::wait()/get() runs a not-yet-started continuation inline; its wrapper waits on the
// antecedent, which is run inline in turn: nesting depth == chain length (segfault for N = 2000000 at -O1).
#include <dispenso/future.h>
#include <cstdio>
#include <vector>
int main(int argc, char** argv) {
  int N = atoi(argv[1]);
  dispenso::ThreadPool pool(1);
  std::vector<dispenso::Future<int>> chain;
  chain.emplace_back([]{ return 0; }, pool, std::launch::deferred);
  for (int i = 0; i < N; ++i) chain.push_back(chain.back().then([](dispenso::Future<int>&& f){ return f.get() + 1; }, pool, std::launch::deferred));
  printf("value %d\n", chain.back().get());
}
