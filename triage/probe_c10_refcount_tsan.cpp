#include <dispenso/future.h>
#include <vector>
#include <thread>
#include <cstdio>
int main() {
  dispenso::ThreadPool pool(2);
  for (int rep = 0; rep < 2000; ++rep) {
    { dispenso::Future<std::vector<int>> f([rep]{ return std::vector<int>(100, rep); }, pool, std::launch::async); }
    // handle dropped without waiting; last decrement may be ours or the runner's
    if (rep % 7 == 0) std::this_thread::sleep_for(std::chrono::microseconds(200));
  }
  printf("done\n");
}
