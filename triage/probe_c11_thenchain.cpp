#include <dispenso/future.h>
#include <dispenso/small_buffer_allocator.h>
#include <dispenso/completion_event.h>
#include <cstdio>
int main() {
  dispenso::ThreadPool pool(2);
  size_t b32 = dispenso::approxBytesAllocatedSmallBuffer<32>(), b8 = dispenso::approxBytesAllocatedSmallBuffer<8>();
  for (int round = 0; round < 5; ++round) {
    for (int rep = 0; rep < 100000; ++rep) {
      dispenso::CompletionEvent ev;
      dispenso::Future<int> f([&]{ ev.wait(); return 1; }, pool, std::launch::async);
      auto g = f.then([](dispenso::Future<int>&& x){ return x.get() + 1; }, pool);
      ev.notify();
      g.get();
    }
    printf("round %d: 32-byte pool +%zu bytes, 8-byte pool +%zu bytes\n", round, dispenso::approxBytesAllocatedSmallBuffer<32>()-b32, dispenso::approxBytesAllocatedSmallBuffer<8>()-b8);
  }
}
