// C01 triage: a task drained from a steal ring by ~ThreadPool spawns another task -> is it run?
#include <dispenso/future.h>
#include <cstdio>
#include <thread>
#include <atomic>
#include <memory>
int main() {
  std::atomic<int> outer{0}, inner{0}, onDtorThread{0};
  auto mainId = std::this_thread::get_id();
  for (int rep = 0; rep < 300; ++rep) {
    auto pool = std::make_unique<dispenso::ThreadPool>(1);
    std::this_thread::sleep_for(std::chrono::milliseconds(3)); // let the worker park
    dispenso::ThreadPool* p = pool.get();
    dispenso::Future<void> f([&, p]{ outer++; if (std::this_thread::get_id() == mainId) onDtorThread++; p->schedule([&]{ inner++; }, dispenso::ForceQueuingTag()); }, *pool, std::launch::async);
    pool.reset();   // destructor: must run everything handed to the pool before returning
  }
  printf("C01: outer tasks run %d (of which %d by the destructor's drain), inner tasks run %d -> %d functors handed to the pool never ran\n", outer.load(), onDtorThread.load(), inner.load(), outer.load()-inner.load());
}
