#include <dispenso/pipeline.h>
#include <cstdio>
#include <memory>
#include <stdexcept>
#include <thread>
int main() {
  for (int rep = 0; rep < 20; ++rep) {
    dispenso::ThreadPool pool(2);
    int produced = 0;
    try {
      dispenso::pipeline(pool,
        [&]() -> dispenso::OpResult<std::unique_ptr<int>> { if (produced++ < 400) return std::make_unique<int>(produced); return {}; },
        dispenso::stage([&](std::unique_ptr<int> p) -> std::unique_ptr<int> { std::this_thread::sleep_for(std::chrono::microseconds(50)); if (*p == 100) throw std::runtime_error("boom"); return p; }, 16),
        dispenso::stage([&](std::unique_ptr<int> p) { std::this_thread::sleep_for(std::chrono::microseconds(50)); (void)p; }, 16));
    } catch (const std::exception& e) { }
  }
  printf("done\n");
}
