#include <dispenso/task_set.h>
#include <dispenso/small_vector.h>
#include <cstdio>
#include <thread>
#include <atomic>
struct alignas(64) Over { char c[64]; };
int main(int argc, char** argv) {
  int which = atoi(argv[1]);
  if (which == 38) {
    int mis = 0;
    for (int rep = 0; rep < 64; ++rep) {
      dispenso::SmallVector<Over, 1>* v = new dispenso::SmallVector<Over,1>();
      for (int i = 0; i < 3 + rep % 5; ++i) v->push_back(Over());
      if (reinterpret_cast<uintptr_t>(&(*v)[0]) % 64) ++mis;
      // leak on purpose to vary heap state
      char* junk = new char[1 + rep * 8]; (void)junk;
    }
    printf("C38 heap storage misaligned for alignas(64) element in %d/64 vectors\n", mis);
  }
  if (which == 8) {
    dispenso::ThreadPool pool(2);
    auto caller = std::this_thread::get_id();
    // fresh pool: schedule() on an idle pool queues (runs on a pool thread)
    { std::atomic<int> where{0}; pool.schedule([&]{ where = (std::this_thread::get_id() == caller) ? 1 : 2; }); while(!where) std::this_thread::yield(); printf("fresh pool: ran %s\n", where==1?"INLINE on caller":"on pool thread"); }
    for (int rep = 0; rep < 60; ++rep) {
      std::atomic<bool> release{false};
      std::atomic<int> blocked{0};
      dispenso::TaskSet ts(pool);
      size_t n = (size_t)pool.numThreads();
      for (size_t i = 0; i < n; ++i) pool.schedule([&]{ blocked++; while(!release) std::this_thread::yield(); }, dispenso::ForceQueuingTag());
      while (blocked.load() < (int)n) std::this_thread::yield();
      std::atomic<int> ran{0};
      ts.scheduleBulk(n, [&](size_t){ return [&]{ ran++; }; });   // ring fast path; workers are blocked
      std::thread rel([&]{ std::this_thread::sleep_for(std::chrono::milliseconds(5)); release = true; });
      pool.resize(n == 2 ? 1 : 2);   // drains the rings itself
      rel.join();
      ts.wait();
    }
    std::this_thread::sleep_for(std::chrono::milliseconds(100));
    { std::atomic<int> where{0}; pool.schedule([&]{ where = (std::this_thread::get_id() == caller) ? 1 : 2; }); while(!where) std::this_thread::yield(); printf("C08 after 60 resizes with ring work, quiescent pool of %zd threads: schedule() ran %s\n", pool.numThreads(), where==1?"INLINE on caller (accounting drifted)":"on pool thread"); }
  }
}
