#include <dispenso/small_buffer_allocator.h>
#include <thread>
#include <vector>
#include <atomic>
#include <cstdio>
int main() {
  std::atomic<bool> stop{false};
  std::atomic<size_t> sink{0};
  std::thread diag([&]{ while (!stop) sink += dispenso::approxBytesAllocatedSmallBuffer<256>(); });
  std::thread diag2([&]{ while (!stop) sink += dispenso::approxBytesAllocatedSmallBuffer<256>(); });
  std::vector<std::thread> ts;
  for (int t = 0; t < 4; ++t) ts.emplace_back([&]{ std::vector<char*> held; for (int i = 0; i < 200000; ++i) held.push_back(dispenso::allocSmallBuffer<256>()); for (char* p : held) dispenso::deallocSmallBuffer<256>(p); });
  for (auto& t : ts) t.join();
  stop = true; diag.join(); diag2.join();
  printf("done %zu\n", sink.load());
}
