#!/bin/bash
# usage: triage/run_probe_lib.sh probe.cpp args...   (links the built /repo/_build libdispenso.so; rebuilds it first)
P=$1; shift
cmake --build /repo/_build --target dispenso -j16 >/dev/null || exit 3
D=$(mktemp -d /tmp/probe.XXXXXX)
g++ -std=c++14 -O1 -g -DNDEBUG -I/repo -isystem /repo/dispenso/third-party $P -o $D/probe -L/repo/_build/dispenso -ldispenso -lpthread -Wl,-rpath,/repo/_build/dispenso || exit 3
(cd $D && timeout 120 ./probe "$@"); RC=$?
rm -rf $D
echo "probe exit: $RC"
