#include <dispenso/parallel_for.h>
#include <chrono>
#include <cstdio>
#include <thread>
int main() {
  using clk = std::chrono::steady_clock;
  dispenso::ThreadPool pool(8);
  pool.setSignalingWake(true, std::chrono::seconds(5));   // backstop 5 s
  int slow = 0;
  for (int rep = 0; rep < 10; ++rep) {
    std::this_thread::sleep_for(std::chrono::milliseconds(50)); // let all workers park
    dispenso::TaskSet ts(pool);
    std::atomic<int> started{0};
    dispenso::ParForOptions o; o.wait = false; o.maxThreads = 2;
    auto t0 = clk::now();
    dispenso::parallel_for(ts, 0, 2, [&](int){ started++; }, o);
    while (started.load() < 2 && clk::now() - t0 < std::chrono::seconds(2)) std::this_thread::yield();
    double ms = std::chrono::duration<double, std::milli>(clk::now() - t0).count();
    if (started.load() < 2) ++slow;
    printf("rep %d started=%d after %.1f ms\n", rep, started.load(), ms);
    ts.wait();
  }
  printf("C07: %d/10 submissions not started within 2 s without the backstop\n", slow);
}
