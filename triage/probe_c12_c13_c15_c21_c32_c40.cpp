// triage probes: C21 latch, C40 opresult, C37 arena copy, C32 erase, C13 granularity, C14 tail, C15 foreach 0-thread
#include <dispenso/latch.h>
#include <dispenso/detail/op_result.h>
#include <dispenso/concurrent_object_arena.h>
#include <dispenso/concurrent_vector.h>
#include <dispenso/parallel_for.h>
#include <dispenso/for_each.h>
#include <thread>
#include <chrono>
#include <cstdio>
#include <mutex>
#include <set>
static int live = 0;
struct Tr { Tr(){++live;} Tr(const Tr&){++live;} Tr(Tr&&){++live;} Tr& operator=(const Tr&)=default; Tr& operator=(Tr&&)=default; ~Tr(){--live;} };
int main(int argc, char** argv) {
  int which = atoi(argv[1]);
  if (which == 21) {
    dispenso::Latch l(2);
    std::atomic<bool> done{false};
    std::thread t([&]{ l.wait(); done = true; });
    std::this_thread::sleep_for(std::chrono::milliseconds(200));
    l.count_down(2);
    std::this_thread::sleep_for(std::chrono::milliseconds(500));
    printf("C21 waiter returned=%d try_wait=%d\n", (int)done.load(), (int)l.try_wait());
    if (!done) { _exit(0);} t.join();
  }
  if (which == 40) {
    { dispenso::detail::OpResult<Tr> a{Tr()}; dispenso::detail::OpResult<Tr> b(std::move(a)); }
    printf("C40 live after scope=%d (expect 0)\n", live);
  }
  if (which == 32) {
    { dispenso::ConcurrentVector<Tr> v; for (int i=0;i<5;++i) v.emplace_back(); v.erase(v.begin()+1); printf("size %zu live %d\n", v.size(), live); }
    printf("C32 live after scope=%d (expect 0)\n", live);
  }
  if (which == 13) {
    dispenso::ThreadPool pool(4); dispenso::TaskSet ts(pool);
    dispenso::ParForOptions o; o.granularity = 8; o.defaultChunking = dispenso::ParForChunking::kAdaptive;
    std::mutex m; std::vector<std::pair<int,int>> chunks;
    dispenso::parallel_for(ts, dispenso::makeChunkedRange(3, 3+8*1000+5, dispenso::ParForChunking::kAdaptive), [&](int b, int e){ std::lock_guard<std::mutex> g(m); chunks.push_back({b,e}); }, o);
    int bad=0; for (auto& c: chunks) if ((c.second-c.first)%8) { ++bad; printf("  non-multiple chunk [%d,%d) size %d\n", c.first,c.second,c.second-c.first);} 
    printf("C13 bad chunks=%d (expect <=1 ending at %d)\n", bad, 3+8*1000+5);
  }
  if (which == 15) {
    dispenso::ThreadPool pool(0); dispenso::TaskSet ts(pool);
    std::vector<int> v(10, 0); dispenso::ForEachOptions o; o.wait=false;
    dispenso::for_each(ts, v.begin(), v.end(), [](int& x){ ++x; }, o); ts.wait();
    int s=0; for (int x: v) s+=x; printf("C15 sum=%d\n", s);
  }
  if (which == 12) {
    dispenso::ThreadPool pool(4); dispenso::TaskSet ts(pool);
    dispenso::ParForOptions o; o.defaultChunking = dispenso::ParForChunking::kAdaptive;
    std::atomic<uint64_t> cnt{0}; uint64_t mx = ~uint64_t(0);
    dispenso::parallel_for(ts, mx-1000, mx, [&](uint64_t){ cnt++; }, o);
    printf("C12 visited=%llu expect 1000\n", (unsigned long long)cnt.load());
  }
  return 0;
}
