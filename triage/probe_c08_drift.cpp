#include <dispenso/task_set.h>
#include <cstdio>
#include <thread>
#include <atomic>
int main(int argc, char** argv) {
  int iters = atoi(argv[1]);
  dispenso::ThreadPool pool(4);
  auto caller = std::this_thread::get_id();
  std::atomic<bool> stop{false};
  std::atomic<long> ran{0};
  std::thread producer([&]{
    while (!stop) {
      dispenso::TaskSet ts(pool);
      ts.scheduleBulk(4, [&](size_t){ return [&]{ ran++; }; });
      ts.wait();
    }
  });
  for (int i = 0; i < iters; ++i) { pool.resize(4 + (i & 1)); }
  stop = true; producer.join();
  pool.resize(4);
  std::this_thread::sleep_for(std::chrono::milliseconds(200));
  int inl = 0;
  for (int k = 0; k < 5; ++k) { std::atomic<int> where{0}; pool.schedule([&]{ where = (std::this_thread::get_id() == caller) ? 1 : 2; }); while(!where) std::this_thread::yield(); inl += (where==1); std::this_thread::sleep_for(std::chrono::milliseconds(20)); }
  printf("C08 after %d resizes racing ring submissions (%ld tasks ran): schedule() on the quiescent 4-thread pool ran inline on the caller %d/5 times\n", iters, ran.load(), inl);
}
