#include <dispenso/pipeline.h>
#include <cstdio>
int main() {
  for (int n : {0, 1, 2}) {
    dispenso::ThreadPool pool(n);
    int calls = 0;
    dispenso::pipeline(pool, [&]() { return ++calls < 10; });
    int gen = 0, sunk = 0;
    dispenso::pipeline(pool, [&]() -> dispenso::OpResult<int> { if (gen < 10) return gen++; return {}; }, [&](int) { ++sunk; });
    printf("pool(%d): single-stage pipeline invoked its stage %d times (expect 10); 2-stage produced %d sunk %d\n", n, calls, gen, sunk);
  }
}
