// C07 (second defect): claimAndWakeOne() clears the sleep-mask bit of one chosen sleeper X but wakes
// *one arbitrary waiter* Y of the group's shared futex. Y clears its own bit on the way out, X stays
// parked with its bit already cleared ("ghost sleeper": asleep, but invisible to every later claim).
// Scenario: pool of N parked threads, backstop raised to 30 s; one producer submits N blocking tasks
// one at a time (schedule(), 50 ms apart, never waiting). Property: each is started promptly.
// Exit 1 if in any round a task is not started within 3 s.
#include <dispenso/thread_pool.h>
#include <atomic>
#include <chrono>
#include <cstdio>
#include <thread>
int main(int argc, char** argv) {
  using clk = std::chrono::steady_clock;
  int bad = 0, rounds = 0;
  for (int n = 2; n <= 4; ++n) {
    for (int rep = 0; rep < 3; ++rep) {
      dispenso::ThreadPool pool(static_cast<size_t>(n));
      pool.setSignalingWake(true, std::chrono::seconds(8));
      std::this_thread::sleep_for(std::chrono::milliseconds(600)); // everyone parks
      // a short warm-up task: the worker that runs it re-parks *behind* the others in the futex queue,
      // so the lowest set mask bit (the one claimAndWakeOne picks) and the waiter the kernel wakes
      // first (FIFO) no longer coincide
      std::atomic<int> warm{0};
      pool.schedule([&]() { warm.store(1); }, dispenso::ForceQueuingTag());
      while (!warm.load()) std::this_thread::yield();
      std::this_thread::sleep_for(std::chrono::milliseconds(600)); // everyone parks again
      std::atomic<int> started{0};
      std::atomic<bool> release{false};
      int firstMissing = 0;
      for (int k = 1; k <= n; ++k) {
        auto t0 = clk::now();
        pool.schedule([&]() {
          started.fetch_add(1);
          while (!release.load()) std::this_thread::sleep_for(std::chrono::milliseconds(1));
        }, dispenso::ForceQueuingTag());
        while (started.load() < k && clk::now() - t0 < std::chrono::seconds(3)) std::this_thread::sleep_for(std::chrono::microseconds(200));
        if (started.load() < k) { firstMissing = k; break; }
        std::this_thread::sleep_for(std::chrono::milliseconds(50));
      }
      ++rounds;
      if (firstMissing) ++bad;
      if (firstMissing)
        std::printf("pool=%d: task %d of %d NOT started within 3 s although %d worker(s) are parked\n", n, firstMissing, n, n - firstMissing + 1);
      else
        std::printf("pool=%d: all %d tasks started promptly\n", n, n);
      release.store(true);
    }
  }
  // Scenario 2: the pool is *fully parked* when one bulk submission of n tasks arrives; one of the
  // parked workers is a ghost left behind by an earlier, completed, submission.
  for (int n = 2; n <= 4; ++n) {
    for (int rep = 0; rep < 4; ++rep) {
      dispenso::ThreadPool pool(static_cast<size_t>(n));
      pool.setSignalingWake(true, std::chrono::seconds(8));
      std::this_thread::sleep_for(std::chrono::milliseconds(600));
      std::atomic<int> warm{0};
      pool.schedule([&]() { warm.fetch_add(1); }, dispenso::ForceQueuingTag());
      while (warm.load() < 1) std::this_thread::yield();
      std::this_thread::sleep_for(std::chrono::milliseconds(600));
      pool.schedule([&]() { warm.fetch_add(1); }, dispenso::ForceQueuingTag());   // claims bit X, the kernel wakes Y
      while (warm.load() < 2) std::this_thread::yield();
      std::this_thread::sleep_for(std::chrono::milliseconds(600));                // Y re-parks; X is parked with its bit clear
      std::atomic<int> started{0};
      std::atomic<bool> release{false};
      auto t0 = clk::now();
      pool.scheduleBulk(static_cast<size_t>(n), [&](size_t) {
        return [&]() {
          started.fetch_add(1);
          while (!release.load()) std::this_thread::sleep_for(std::chrono::milliseconds(1));
        };
      });
      while (started.load() < n && clk::now() - t0 < std::chrono::seconds(3)) std::this_thread::sleep_for(std::chrono::microseconds(200));
      int got = started.load();
      ++rounds;
      if (got < n) ++bad;
      std::printf("bulk into fully parked pool=%d: %d of %d tasks started within 3 s\n", n, got, n);
      release.store(true);
    }
  }
  std::printf("C07 ghost sleeper: %d/%d rounds left a task unstarted\n", bad, rounds);
  return bad ? 1 : 0;
}
