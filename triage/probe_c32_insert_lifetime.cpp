#include <dispenso/concurrent_vector.h>
#include <dispenso/small_vector.h>
#include <cstdio>
static int live = 0, ctor = 0, dtor = 0;
struct Tr { int v=0; Tr(){++live;++ctor;} Tr(int x):v(x){++live;++ctor;} Tr(const Tr& o):v(o.v){++live;++ctor;} Tr(Tr&& o):v(o.v){++live;++ctor;} Tr& operator=(const Tr&)=default; Tr& operator=(Tr&&)=default; ~Tr(){--live;++dtor;} };
int main() {
  { dispenso::ConcurrentVector<Tr> v; for (int i=0;i<5;++i) v.emplace_back(i); int before = live; v.insert(v.begin()+2, Tr(9)); printf("CV insert(pos,T&&): size %zu live %d (before %d)\n", v.size(), live, before); }
  printf("CV after scope live=%d ctor=%d dtor=%d\n", live, ctor, dtor);
  live=ctor=dtor=0;
  { dispenso::ConcurrentVector<Tr> v; for (int i=0;i<5;++i) v.emplace_back(i); Tr x(7); v.insert(v.begin()+2, x); v.pop_back(); v.resize(2); }
  printf("CV insert(pos,const&)+pop_back+resize: after scope live=%d ctor=%d dtor=%d\n", live, ctor, dtor);
  live=ctor=dtor=0;
  { dispenso::SmallVector<Tr,2> v; for (int i=0;i<5;++i) v.emplace_back(i); v.erase(v.begin()+1); v.pop_back(); v.resize(2); v.resize(6); v.clear(); v.emplace_back(1); }
  printf("SmallVector ops: after scope live=%d ctor=%d dtor=%d\n", live, ctor, dtor);
}
